import json
props=[json.loads(l) for l in open('/verif/properties.jsonl')]
built = json.load(open('/verif/checks_meta.json'))
checks=[]; na=[]
for p in props:
    i=p['id']
    if i in built:
        b=built[i]
        checks.append({
          "property_id": i,
          "quick_cmd": f"./run {i} quick",
          "thorough_cmd": f"./run {i} thorough",
          "evidence_file": f"/verif/evidence/{i}.json",
          "replay_cmd_template": "./run replay {path}",
          "engine": b["engine"],
          "level_claimed": {"category": b.get("category","model_checking"), "text": b["text"], "design_ref": b["design_ref"]},
          "level_note": b["note"],
          "technique": b["technique"],
        })
    else:
        na.append({"property_id": i, "reason": built.get("_na",{}).get(i,"check not built yet (work in progress)")})
m={
 "version":1,
 "setup_cmd":"./run setup",
 "hooks":{
   "guard":"cargo feature `verif` of crate llfree (core/Cargo.toml)",
   "enable":"the harness crates depend on /repo/core by path with features [\"std\",\"verif\"]; ./run rebuilds them from /repo's working tree on every invocation",
   "baseline_off_cmd":"cd /repo && cargo test --workspace --no-fail-fast --offline",
   "source_commits": built["_hook_commits"],
   "add_only": True
 },
 "engines":[
  {"name":"SEQ","path":"harness/src/seq.rs","serves_properties":["C02","C04","C05","C07","C09","C10","C13","C14","C15","C17"],"kind_free_text":"explicit-state BFS over the real allocator; state = bytes of the three metadata buffers + reference model"},
  {"name":"ILV","path":"harness/src/ilv.rs","serves_properties":["C01","C03","C04","C05","C10","C13","C18","C21"],"kind_free_text":"CHESS-style preemption-bounded DFS by re-execution; coroutine threads; scheduling point before every atomic operation (cargo feature verif)"},
  {"name":"CRASH","path":"harness/src/crash.rs","serves_properties":["C05","C17"],"kind_free_text":"snapshot of the persistent buffer before every write; recovery + oracle on every snapshot"},
  {"name":"DOM","path":"harness/src/dom.rs","serves_properties":["C06","C08","C11","C12","C16","C19","C23"],"kind_free_text":"complete enumeration of stated finite input domains against the compiled functions"},
  {"name":"REPLAY","path":"harness-eval/src/replaymc.rs","serves_properties":["C20"],"kind_free_text":"bounded enumeration of traces through the real replay binary"}
 ],
 "checks":checks,
 "not_applicable":na,
 "notes":"See DESIGN.md. Exit 0 = held (possibly KNOWN-FINDING lines), 1 = VIOLATION, 2 = machinery error."
}
json.dump(m,open('/verif/MANIFEST.json','w'),indent=1)
print(len(checks),"checks",len(na),"n/a")
