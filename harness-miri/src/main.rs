//! Reduced scenario list for Miri (C18): every configuration of the list x every kind of
//! call once. The list is enumerated here; Miri is only the monitor.
//! Each case is announced on stdout before it runs, so the last announced case
//! identifies a reported error.

use llfree::*;

fn zeroed_policy(requested: Class, target: Class, free: usize) -> Policy {
    if requested.0 > target.0 {
        return Policy::Steal;
    } else if requested.0 < target.0 {
        return Policy::Demote;
    }
    match free {
        f if f >= TREE_FRAMES / 2 => Policy::Match(1),
        f if f >= TREE_FRAMES / 64 => Policy::Match(u8::MAX),
        _ => Policy::Match(0),
    }
}

fn classings() -> Vec<(&'static str, Classing)> {
    vec![
        ("simple(1)", Classing::simple(1).0),
        ("simple(2)", Classing::simple(2).0),
        ("movable(1)", Classing::movable(1).0),
        (
            "zeroed[1,1,1]",
            Classing::new(&[(Class(0), 1), (Class(1), 1), (Class(2), 1)], Class(1), zeroed_policy),
        ),
        (
            "zero-slot[(0,0),(1,1)]",
            Classing::new(&[(Class(0), 0), (Class(1), 1)], Class(1), zeroed_policy),
        ),
        (
            "zero-slot[(0,0)]",
            Classing::new(&[(Class(0), 0)], Class(0), zeroed_policy),
        ),
    ]
}

fn exercise(a: &LLFree, frames: usize, classing: &Classing) {
    let classes: Vec<(Class, usize)> = classing.classes().to_vec();
    let mut held: Vec<(FrameId, Request)> = vec![];
    for &(c, slots) in &classes {
        let local = if slots > 0 { Some(slots - 1) } else { None };
        for order in [0usize, 1, 3, 4, 5, 6, 7, 8, HUGE_ORDER, TREE_ORDER] {
            let r = Request::new(order, c, local);
            if let Ok((f, _)) = a.get(None, r) {
                held.push((f, r));
            }
            let r = Request::new(order, c, None);
            if let Ok((f, _)) = a.get(None, r) {
                held.push((f, r));
            }
        }
    }
    let c0 = classes[0].0;
    if frames > 0 {
        // targeted allocations incl. failing ones (undo paths) and the last frame
        for (f, o) in [(frames - 1, 0usize), (0, 0), (0, 7), (64, 6), (0, HUGE_ORDER), (128, 7)] {
            if f % (1 << o) == 0 && f + (1 << o) <= frames {
                let r = Request::new(o, c0, None);
                if let Ok((f, _)) = a.get(Some(FrameId(f)), r) {
                    held.push((f, r));
                }
            }
        }
    }
    let _ = a.stats();
    let _ = a.tree_stats();
    let _ = format!("{a:?}");
    a.drain();
    for t in 0..frames.div_ceil(TREE_FRAMES) {
        let _ = a.stats_at(FrameId(t * TREE_FRAMES), TREE_ORDER);
        let _ = a.stats_at(FrameId(t * TREE_FRAMES), HUGE_ORDER);
        let _ = a.stats_at(FrameId(t * TREE_FRAMES), 0);
        for op in [None, Some(TreeOperation::Offline), Some(TreeOperation::Online)] {
            let _ = a.change_tree(
                TreeMatch { id: Some(TreeId(t)), class: None, free: 0 },
                TreeChange { class: Some(classing.default), operation: op },
            );
        }
    }
    let _ = a.change_tree(
        TreeMatch { id: None, class: None, free: 1 },
        TreeChange { class: None, operation: None },
    );
    // frees: whole blocks, and parts of the larger ones (splits whole huge frames)
    for (i, (f, r)) in held.iter().enumerate() {
        if r.order >= 7 && i % 2 == 0 {
            let part = Request::new(r.order - 1, r.class, None);
            let _ = a.put(*f, part);
            let _ = a.put(FrameId(f.0 + (1 << (r.order - 1))), Request::new(0, r.class, r.local));
        } else {
            let _ = a.put(*f, *r);
        }
    }
    // invalid frees
    if frames > 0 {
        let _ = a.put(FrameId(frames - 1), Request::new(0, c0, None));
        let _ = a.put(FrameId(0), Request::new(3, c0, None));
        let _ = a.put(FrameId(0), Request::new(HUGE_ORDER, c0, None));
    }
    let _ = a.put(FrameId(frames), Request::new(0, c0, None));
    let _ = a.get(None, Request::new(TREE_ORDER + 1, c0, None));
    a.drain();
    let _ = a.stats();
}

fn main() {
    if std::env::args().any(|a| a == "--none") {
        println!("DONE cases=0");
        return;
    }
    let quick = std::env::args().any(|a| a == "--quick");
    let frames_list: Vec<usize> = if quick {
        vec![0, 1, HUGE_FRAMES + 1, 16 * TREE_FRAMES + 1]
    } else {
        vec![0, 1, 63, HUGE_FRAMES - 1, HUGE_FRAMES + 1, TREE_FRAMES + HUGE_FRAMES + 3, 16 * TREE_FRAMES + 1]
    };
    let mut cases = 0u64;
    for &frames in &frames_list {
        for (name, classing) in classings() {
            if quick && name != "simple(1)" && name != "zero-slot[(0,0)]" {
                continue;
            }
            for mode in ["FreeAll", "AllocAll", "Recover", "None"] {
                println!("CASE frames={frames} classing={name} init={mode}");
                cases += 1;
                let ms = LLFree::metadata_size(&classing, frames);
                let first = if mode == "AllocAll" { Init::AllocAll } else { Init::FreeAll };
                // the buffers are kept as raw parts so that they can be handed to a second
                // instance (Recover / None) without going through `metadata()`
                let bufs = [
                    llfree::util::aligned_buf(ms.local) as *mut [u8],
                    llfree::util::aligned_buf(ms.trees) as *mut [u8],
                    llfree::util::aligned_buf(ms.lower) as *mut [u8],
                ];
                let mk = move || -> MetaData<'static> {
                    let [l, t, lo] = bufs;
                    unsafe { MetaData { local: &mut *l, trees: &mut *t, lower: &mut *lo } }
                };
                let meta = mk();
                let mut a = match LLFree::new(frames, first, &classing, meta) {
                    Ok(a) => a,
                    Err(e) => {
                        println!("  construction error {e:?}");
                        continue;
                    }
                };
                if mode == "Recover" || mode == "None" {
                    // use the allocator a little, then rebuild over the same buffers
                    let r = Request::new(0, classing.classes()[0].0, None);
                    let _ = a.get(None, r);
                    let _ = a.get(None, Request::new(HUGE_ORDER, classing.classes()[0].0, None));
                    drop(a);
                    let meta = mk();
                    let init = if mode == "Recover" { Init::Recover } else { Init::None };
                    a = match LLFree::new(frames, init, &classing, meta) {
                        Ok(a) => a,
                        Err(e) => {
                            println!("  rebuild error {e:?}");
                            continue;
                        }
                    };
                }
                exercise(&a, frames, &classing);
            }
        }
    }
    // metadata validation with empty / overlapping buffers
    println!("CASE metadata validation");
    cases += 1;
    let (classing, _) = Classing::simple(1);
    for frames in [0usize, 1, TREE_FRAMES] {
        let ms = LLFree::metadata_size(&classing, frames);
        let big = llfree::util::aligned_buf(ms.local + ms.trees + ms.lower + 256);
        let (l, rest) = big.split_at_mut(ms.local.next_multiple_of(64));
        let (t, lo) = rest.split_at_mut(ms.trees.next_multiple_of(64));
        let meta = MetaData { local: &mut l[..ms.local], trees: &mut t[..ms.trees], lower: &mut lo[..ms.lower] };
        let r = LLFree::new(frames, Init::FreeAll, &classing, meta).map(|_| ());
        println!("  frames={frames} split buffers -> {r:?}");
        if ms.lower > 0 {
            let ms2 = LLFree::metadata_size(&classing, frames);
            let short = MetaData::alloc(&MetaSize { local: ms2.local, trees: ms2.trees, lower: ms2.lower - 1 });
            let r = LLFree::new(frames, Init::FreeAll, &classing, short).map(|_| ());
            println!("  frames={frames} short lower -> {r:?}");
        }
    }
    println!("DONE cases={cases}");
}
