//! REPLAY: bounded enumeration of allocation traces through the real `replay` binary (C20)

use std::collections::BTreeMap;
use std::path::{Path, PathBuf};
use std::process::Command;
use std::sync::Mutex;
use std::sync::atomic::{AtomicU64, Ordering};
use std::time::Instant;

use llfree::TREE_ORDER;
use serde_json::{Value, json};
use vh::dom::{dom_finish, par_for};
use vh::oracle::Violation;
use vh::report::Collector;

#[derive(Clone, Copy, Debug, PartialEq, Eq)]
pub struct Event {
    pub alloc: bool,
    pub pfn: u32,
    pub order: u8,
}

const PAGE: usize = 4096;

/// Write the trace in the binary's on-disk format
pub fn write_trace(path: &Path, events: &[Event], cores: u32, max_pfn: u32) {
    // one trace page per core
    let mut pages: Vec<Vec<u8>> = vec![];
    for cpu in 0..cores {
        let mut page = vec![0u8; PAGE];
        page[..4].copy_from_slice(&cpu.to_le_bytes());
        let mut k = 0;
        for (i, e) in events.iter().enumerate() {
            if (i as u32) % cores != cpu {
                continue;
            }
            let time_us = (i as u128) + 1;
            let entry: u128 = time_us
                | ((e.pfn as u128) << 38)
                | ((e.alloc as u128) << 62)
                | ((e.order as u128) << 63)
                | (0u128 << 67)
                | (((100 + i) as u128) << 96);
            let off = 16 + k * 16;
            page[off..off + 16].copy_from_slice(&entry.to_le_bytes());
            k += 1;
        }
        pages.push(page);
    }
    let mut header = vec![0u8; PAGE];
    header[..4].copy_from_slice(&(pages.len() as u32).to_le_bytes());
    header[4..8].copy_from_slice(&cores.to_le_bytes());
    header[8..12].copy_from_slice(&max_pfn.to_le_bytes());
    let mut data = header;
    for p in pages {
        data.extend(p);
    }
    std::fs::write(path, data).expect("write trace");
}

/// Write a trace with explicit per-CPU event lists and time stamps (microseconds)
pub fn write_trace_timed(path: &Path, per_cpu: &[Vec<(u64, Event)>], max_pfn: u32) {
    let mut data = vec![0u8; PAGE];
    data[..4].copy_from_slice(&(per_cpu.len() as u32).to_le_bytes());
    data[4..8].copy_from_slice(&(per_cpu.len() as u32).to_le_bytes());
    data[8..12].copy_from_slice(&max_pfn.to_le_bytes());
    for (cpu, evs) in per_cpu.iter().enumerate() {
        assert!(evs.len() <= (PAGE - 16) / 16);
        let mut page = vec![0u8; PAGE];
        page[..4].copy_from_slice(&(cpu as u32).to_le_bytes());
        for (k, (t, e)) in evs.iter().enumerate() {
            let entry: u128 = (*t as u128 & ((1u128 << 38) - 1))
                | ((e.pfn as u128) << 38)
                | ((e.alloc as u128) << 62)
                | ((e.order as u128) << 63)
                | (((100 + k) as u128) << 96);
            let off = 16 + k * 16;
            page[off..off + 16].copy_from_slice(&entry.to_le_bytes());
        }
        data.extend(page);
    }
    std::fs::write(path, data).expect("write trace");
}

/// Long traces (more events than any small-input fast path of the replayer's sorting and
/// bookkeeping): `rounds` rounds distributed round-robin over `cores` CPUs; a round
/// allocates a block and frees it (whole), keeps it (every 5th) or frees its upper half
/// (every 7th). `time_mode`: 0 = distinct increasing microseconds, 1 = all events in the
/// same microsecond, 2 = 1 us steps after 20 s (equal once converted to f32 seconds).
/// Events with equal time stamps keep their per-CPU buffer order.
fn long_trace(cores: usize, rounds: usize, time_mode: usize) -> (Vec<Vec<(u64, Event)>>, Vec<Event>) {
    let mut per_cpu: Vec<Vec<(u64, Event)>> = vec![vec![]; cores];
    let mut logical = vec![];
    let mut t = 0u64;
    for r in 0..rounds {
        let cpu = r % cores;
        let order = (r % 4) as u8;
        let pfn = (16 * (r + 1)) as u32;
        let mut push = |e: Event, per_cpu: &mut Vec<Vec<(u64, Event)>>| {
            t += 1;
            let time = match time_mode {
                0 => t,
                1 => 7,
                _ => 20_000_000 + t,
            };
            per_cpu[cpu].push((time, e));
            logical.push(e);
        };
        push(Event { alloc: true, pfn, order }, &mut per_cpu);
        if r % 5 == 4 {
            continue; // stays allocated
        }
        if r % 7 == 6 && order > 0 {
            let half = 1u32 << (order - 1);
            push(Event { alloc: false, pfn: pfn + half, order: order - 1 }, &mut per_cpu);
        } else {
            push(Event { alloc: false, pfn, order }, &mut per_cpu);
        }
    }
    (per_cpu, logical)
}

/// Trace-level reference: which frees find a live kernel block, and how many frames
/// the trace still holds at the end.
pub struct Expect {
    pub held_frames: usize,
    /// indices of free events that address a live (part of a) block
    pub found_frees: Vec<usize>,
    pub unknown_frees: usize,
}

pub fn expect(events: &[Event]) -> Expect {
    // kernel-side bookkeeping: pfn -> order of the live block/part starting there
    let mut live: BTreeMap<u32, u8> = BTreeMap::new();
    let mut held: usize = 0;
    let mut found = vec![];
    let mut unknown = 0;
    for (i, e) in events.iter().enumerate() {
        if e.alloc {
            // a re-allocation of a live pfn leaks the old block (the trace has no free for it)
            live.insert(e.pfn, e.order);
            held += 1usize << e.order;
            continue;
        }
        let mut hit = None;
        for o in e.order as usize..=TREE_ORDER {
            let q = e.pfn & !((1u32 << o) - 1);
            if let Some(&lo) = live.get(&q)
                && lo as usize >= o
            {
                hit = Some((q, lo));
                break;
            }
        }
        match hit {
            Some((q, lo)) => {
                live.remove(&q);
                let parts = 1u32 << (lo - e.order);
                for part in 0..parts {
                    let pp = q + part * (1u32 << e.order);
                    if pp != e.pfn {
                        live.insert(pp, e.order);
                    } else {
                        live.remove(&pp);
                    }
                }
                held -= 1usize << e.order;
                found.push(i);
            }
            None => unknown += 1,
        }
    }
    Expect {
        held_frames: held,
        found_frees: found,
        unknown_frees: unknown,
    }
}

pub fn replay_bin() -> PathBuf {
    vh::report::verif_root().join("target/eval-bin/debug/replay")
}

pub fn build_replay_bin() -> Result<(), String> {
    let out = Command::new("cargo")
        .args(["build", "--offline", "-q", "-p", "llfree-eval", "--bin", "replay"])
        .current_dir("/repo")
        .env("CARGO_TARGET_DIR", vh::report::verif_root().join("target/eval-bin"))
        .env("CARGO_NET_OFFLINE", "true")
        .output()
        .map_err(|e| format!("cannot run cargo: {e}"))?;
    if !out.status.success() {
        return Err(String::from_utf8_lossy(&out.stderr).to_string());
    }
    Ok(())
}

pub struct RunResult {
    pub status_ok: bool,
    pub free_frames: Option<usize>,
    pub total_frames: Option<usize>,
    pub free_failed_lines: usize,
    pub stderr_tail: String,
}

pub fn run_trace(path: &Path) -> RunResult {
    let out = Command::new(replay_bin())
        .arg(path)
        .args(["--stride", "1"])
        .env("RUST_LOG", "error")
        .env("NO_COLOR", "1")
        .output()
        .expect("run replay binary");
    let stdout = String::from_utf8_lossy(&out.stdout).to_string();
    let stderr = String::from_utf8_lossy(&out.stderr).to_string();
    let v: Option<Value> = stdout
        .find('{')
        .and_then(|i| serde_json::from_str(&stdout[i..]).ok());
    RunResult {
        status_ok: out.status.success(),
        free_frames: v.as_ref().and_then(|v| v["free_frames"].as_u64()).map(|x| x as usize),
        total_frames: v.as_ref().and_then(|v| v["total_frames"].as_u64()).map(|x| x as usize),
        free_failed_lines: stderr.matches("Free failed").count(),
        stderr_tail: stderr.chars().rev().take(400).collect::<String>().chars().rev().collect(),
    }
}

fn alphabet() -> Vec<Event> {
    let a = |pfn, order| Event { alloc: true, pfn, order };
    let f = |pfn, order| Event { alloc: false, pfn, order };
    vec![
        a(512, 3),
        a(1024, 0),
        a(2048, 10),
        f(512, 3),
        f(512, 1),
        f(514, 1),
        f(518, 1),
        f(516, 2),
        f(519, 0),
        f(1024, 0),
        f(700, 0),
        f(2048 + 512, 9),
        f(2048, 0),
    ]
}

fn event_json(e: &Event) -> Value {
    json!({"alloc": e.alloc, "pfn": e.pfn, "order": e.order})
}

fn check_trace(events: &[Event], cores: u32, dir: &Path, id: usize, col: &Mutex<Collector>) {
    let max_pfn = 4095u32;
    let path = dir.join(format!("t{id}.bin"));
    write_trace(&path, events, cores, max_pfn);
    let r = run_trace(&path);
    let _ = std::fs::remove_file(&path);
    let want = expect(events);
    let managed = (max_pfn as usize + 1).next_multiple_of(512);
    let text: Vec<String> = events
        .iter()
        .map(|e| format!("{}({},o{})", if e.alloc { "alloc" } else { "free" }, e.pfn, e.order))
        .collect();
    let mut problem: Option<(&str, String)> = None;
    if !r.status_ok {
        problem = Some((
            "replayer exited abnormally",
            format!("stderr: {}", r.stderr_tail),
        ));
    } else if r.free_failed_lines > 0 {
        problem = Some((
            "a traced free of a live block failed in the allocator",
            format!("{} 'Free failed' line(s)", r.free_failed_lines),
        ));
    } else if r.free_frames != Some(managed - want.held_frames) {
        problem = Some((
            "final free-frame count differs from managed size minus the frames the trace still holds",
            format!(
                "free_frames={:?} expected {} (managed {managed}, trace holds {})",
                r.free_frames,
                managed - want.held_frames,
                want.held_frames
            ),
        ));
    }
    if let Some((clause, detail)) = problem {
        col.lock().unwrap().add(
            Violation::new("C20", clause, format!("trace {text:?} cores={cores}: {detail}")),
            || json!({"engine": "replaymc", "cores": cores, "max_pfn": max_pfn,
                "events": events.iter().map(event_json).collect::<Vec<_>>()}),
        );
    }
}

fn check_long(cores: usize, rounds: usize, time_mode: usize, dir: &Path, id: usize, col: &Mutex<Collector>) {
    let (per_cpu, logical) = long_trace(cores, rounds, time_mode);
    let max_pfn = 4095u32;
    let path = dir.join(format!("long{id}.bin"));
    write_trace_timed(&path, &per_cpu, max_pfn);
    let r = run_trace(&path);
    let _ = std::fs::remove_file(&path);
    let want = expect(&logical);
    let managed = (max_pfn as usize + 1).next_multiple_of(512);
    let problem = if !r.status_ok {
        Some(("replayer exited abnormally", format!("stderr: {}", r.stderr_tail)))
    } else if r.free_failed_lines > 0 {
        Some(("a traced free of a live block failed in the allocator", format!("{} 'Free failed' line(s)", r.free_failed_lines)))
    } else if r.free_frames != Some(managed - want.held_frames) {
        Some((
            "final free-frame count differs from managed size minus the frames the trace still holds",
            format!("free_frames={:?} expected {} (managed {managed}, trace holds {})", r.free_frames, managed - want.held_frames, want.held_frames),
        ))
    } else {
        None
    };
    if let Some((clause, detail)) = problem {
        col.lock().unwrap().add(
            Violation::new("C20", clause, format!("long trace cores={cores} rounds={rounds} time_mode={time_mode} ({} events): {detail}", logical.len())),
            || json!({"engine": "replaymc", "long": {"cores": cores, "rounds": rounds, "time_mode": time_mode}}),
        );
    }
}

pub fn c20(tier: &str, out: Option<&Path>) -> i32 {
    let t0 = Instant::now();
    let thorough = tier == "thorough";
    if let Err(e) = build_replay_bin() {
        eprintln!("MACHINERY ERROR: cannot build the replay binary:\n{e}");
        return 2;
    }
    let col = Mutex::new(Collector::default());
    let alpha = alphabet();
    let maxlen = if thorough { 4 } else { 3 };
    // enumerate all traces up to maxlen that contain at least one allocation
    let mut traces: Vec<Vec<Event>> = vec![];
    let k = alpha.len();
    for len in 1..=maxlen {
        for code in 0..k.pow(len as u32) {
            let mut c = code;
            let mut t = vec![];
            for _ in 0..len {
                t.push(alpha[c % k]);
                c /= k;
            }
            if t[0].alloc {
                traces.push(t);
            }
        }
    }
    let dir = std::env::temp_dir().join(format!("vheval-c20-{}", std::process::id()));
    std::fs::create_dir_all(&dir).unwrap();
    let evals = AtomicU64::new(0);
    let with_partial = AtomicU64::new(0);
    par_for(traces.len(), |i| {
        let t = &traces[i];
        let cores = 1 + (i % 2) as u32;
        check_trace(t, cores, &dir, i, &col);
        evals.fetch_add(1, Ordering::Relaxed);
        let e = expect(t);
        if e.found_frees.iter().any(|&j| {
            // a found free at a smaller order than some earlier allocation covering it
            t[..j].iter().any(|a| a.alloc && a.order > t[j].order && (t[j].pfn >= a.pfn) && (t[j].pfn < a.pfn + (1 << a.order)))
        }) {
            with_partial.fetch_add(1, Ordering::Relaxed);
        }
    });
    // long traces
    let mut long_jobs = vec![];
    for cores in [1usize, 2, 3] {
        for rounds in [8usize, 12, 30, 60] {
            for time_mode in 0..3 {
                long_jobs.push((cores, rounds, time_mode));
            }
        }
    }
    let long_n = long_jobs.len();
    par_for(long_jobs.len(), |i| {
        let (cores, rounds, time_mode) = long_jobs[i];
        check_long(cores, rounds, time_mode, &dir, i, &col);
        evals.fetch_add(1, Ordering::Relaxed);
    });
    let _ = std::fs::remove_dir_all(&dir);
    dom_finish(
        "C20",
        tier,
        t0,
        evals.load(Ordering::Relaxed),
        with_partial.load(Ordering::Relaxed),
        "every trace of 1..=maxlen events (first event an allocation) over the 13-event alphabet {alloc(512,o3), alloc(1024,o0), alloc(2048,o10), free whole/first/middle/last/half/single parts of them, free of an unknown pfn}, alternating 1 and 2 cores, written in the binary's page format and run through the real `replay` binary. Oracle: exit status 0 (its own validate), no 'Free failed' line, final free_frames = managed - frames the trace still holds (every found free releases exactly 2^order frames). distinct_nontrivial = traces containing a partial free of a larger live allocation",
        vec![json!({"trace": ["alloc(512,o3)", "free(514,o1)", "free(512,o1)"], "cores": 1})],
        json!({"long_traces": long_n, "long_trace_rule": "cores {1,2,3} x rounds {8,12,30,60} x time stamps {distinct, all equal, 1us steps after 20s (equal as f32 seconds)}: each round allocates a block (orders 0..3, distinct pfns) on CPU round%cores and frees it whole / keeps it (every 5th) / frees its upper half (every 7th); events with equal time stamps keep their per-CPU buffer order", "max_trace_length": maxlen, "alphabet": alpha.iter().map(event_json).collect::<Vec<_>>(), "traces": traces.len()}),
        vec!["the replay binary is rebuilt from /repo/eval (dev profile) into /verif/target/eval-bin".into(),
             "the trace-level reference (which frees find a live block) follows the kernel-pfn bookkeeping the trace format implies; the allocator side is only observed through exit status, log lines and the final count".into()],
        col.into_inner().unwrap(),
        out,
    )
}

pub fn replay(v: &Value, path: &str) -> i32 {
    if let Err(e) = build_replay_bin() {
        eprintln!("MACHINERY ERROR: {e}");
        return 2;
    }
    let events: Vec<Event> = v["events"]
        .as_array()
        .map(|a| {
            a.iter()
                .map(|e| Event {
                    alloc: e["alloc"].as_bool().unwrap_or(false),
                    pfn: e["pfn"].as_u64().unwrap_or(0) as u32,
                    order: e["order"].as_u64().unwrap_or(0) as u8,
                })
                .collect()
        })
        .unwrap_or_default();
    let cores = v["cores"].as_u64().unwrap_or(1) as u32;
    let dir = std::env::temp_dir().join(format!("vheval-replay-{}", std::process::id()));
    std::fs::create_dir_all(&dir).unwrap();
    let col = Mutex::new(Collector::default());
    if let Some(l) = v.get("long").filter(|l| l.is_object()) {
        let g = |k: &str| l[k].as_u64().unwrap_or(1) as usize;
        check_long(g("cores"), g("rounds"), g("time_mode"), &dir, 0, &col);
    } else {
        check_trace(&events, cores, &dir, 0, &col);
        check_trace(&events, cores, &dir, 1, &col);
    }
    let _ = std::fs::remove_dir_all(&dir);
    let col = col.into_inner().unwrap();
    for ((p, c), f) in &col.found {
        println!("violates {p}: {c} ({})", f.v.detail);
    }
    if col.is_empty() {
        println!("no violation reproduced");
        0
    } else {
        println!("VIOLATION property=C20 replay={path}");
        1
    }
}
