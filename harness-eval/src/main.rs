//! Checks that need the evaluation crate: C19 (class configurations) and C20 (trace replay)

use std::path::{Path, PathBuf};
use std::sync::Mutex;
use std::sync::atomic::{AtomicU64, Ordering};
use std::time::Instant;

use llfree::{Alloc, Init, LLFree, MetaData, TREE_FRAMES};
use llfree_eval::classes::ClassingConfig;
use serde_json::{Value, json};
use vh::dom::{dom_finish, par_for};
use vh::oracle::Violation;
use vh::report::Collector;

mod replaymc;

const KINDS: [&str; 5] = ["zero", "one", "cores", "cores_half", "pids"];

fn config_json(kinds: &[usize], default: usize) -> String {
    let mut classes = vec![];
    for (j, &k) in kinds.iter().enumerate() {
        let p = j / 2;
        let gfp = if j % 2 == 0 {
            json!({"off": "MOVABLE"})
        } else {
            json!({"on": "MOVABLE"})
        };
        classes.push(json!({"id": j, "count": KINDS[k], "order": [3 * p, 3 * p + 2], "gfp": gfp}));
    }
    json!({"classes": classes, "default": default, "perfect": [64, 2047], "good": [2048, 4095]}).to_string()
}

struct Case<'a> {
    cfg: &'a ClassingConfig,
    desc: &'a str,
    cores: usize,
    /// slots per class as the allocator sees them
    slots: [Option<usize>; 8],
}

fn check_request(
    c: &Case,
    order: usize,
    core: usize,
    pid: usize,
    gfp: u32,
    col: &Mutex<Collector>,
) -> (u8, Option<usize>) {
    let r = c.cfg.request(order, core, c.cores, pid, gfp);
    let class = r.class.0;
    let bad = match c.slots.get(class as usize).copied().flatten() {
        None => Some("request names a class that is not configured".to_string()),
        Some(n) => match r.local {
            Some(l) if l >= n => Some(format!(
                "request names local slot {l} but class {class} has {n} slot(s)"
            )),
            _ => None,
        },
    };
    if let Some(b) = bad {
        let kind = if b.contains("not configured") {
            "generated request names an unconfigured class"
        } else {
            "generated request names a local slot beyond the class's slot count"
        };
        col.lock().unwrap().add(
            Violation::new(
                "C19",
                kind,
                format!(
                    "config {} cores={} order={order} core={core} pid={pid} gfp={gfp:#x}: {b}",
                    c.desc, c.cores
                ),
            ),
            || json!({"engine": "classes", "config": c.desc, "cores": c.cores, "order": order, "core": core, "pid": pid, "gfp": gfp}),
        );
    }
    (class, r.local)
}

fn c19_config(
    cfg: &ClassingConfig,
    desc: &str,
    cores_list: &[usize],
    full: bool,
    col: &Mutex<Collector>,
) -> (u64, u64) {
    let gfps: [u32; 8] = [0, 0x08, 0x10, 0x08 | 0x10, 0x1000_0000, 0x1000_0008, 0x100, 0x1000_0108];
    let mut evals = 0u64;
    let mut distinct = 0u64;
    for &cores in cores_list {
        let classing = cfg.classing(cores);
        let mut slots = [None; 8];
        for &(c, n) in classing.classes() {
            slots[c.0 as usize] = Some(n);
        }
        let case = Case {
            cfg,
            desc,
            cores,
            slots,
        };
        let mut reqs: std::collections::BTreeSet<(u8, Option<usize>, usize)> = Default::default();
        // every (order, gfp) x boundary cores/pids
        let edge: Vec<usize> = {
            let mut v = vec![0, 1, 2, cores.saturating_sub(1), cores, cores + 1, 2 * cores - 1, 63, 64];
            v.sort();
            v.dedup();
            v
        };
        for order in 0..=10usize {
            for &gfp in &gfps {
                for &core in &edge {
                    for &pid in &edge {
                        let (c, l) = check_request(&case, order, core, pid, gfp, col);
                        reqs.insert((c, l, order));
                        evals += 1;
                    }
                }
            }
        }
        // every core x pid for one (order, gfp) per class
        let cp_max = if full { 64 } else { 16 };
        for order in [0usize, 3, 6, 9] {
            for gfp in [0u32, 0x08] {
                for core in 0..=cp_max {
                    for pid in 0..=cp_max {
                        let (c, l) = check_request(&case, order, core, pid, gfp, col);
                        reqs.insert((c, l, order));
                        evals += 1;
                    }
                }
            }
        }
        distinct += reqs.len() as u64;
        // execute one get/put per distinct request on a real allocator
        let frames = 4 * TREE_FRAMES;
        let ms = LLFree::metadata_size(&classing, frames);
        let meta = MetaData::alloc(&ms);
        let alloc = match LLFree::new(frames, Init::FreeAll, &classing, meta) {
            Ok(a) => a,
            Err(_) => continue,
        };
        for (class, local, order) in reqs {
            if slots[class as usize].is_none() {
                continue;
            }
            let req = llfree::Request::new(order, llfree::Class(class), local);
            let r = vh::common::catch(|| {
                if let Ok((f, _)) = alloc.get(None, req) {
                    let _ = alloc.put(f, req);
                }
            });
            evals += 1;
            if let Err(msg) = r {
                col.lock().unwrap().add(
                    Violation::new(
                        "C19",
                        format!("allocator panicked on a generated request: {}", vh::common::panic_signature(&msg)),
                        format!("config {desc} cores={cores}: request class {class} local {local:?} order {order}: {msg}"),
                    ),
                    || json!({"engine": "classes", "config": desc, "cores": cores, "class": class, "local": local, "order": order}),
                );
            }
        }
    }
    (evals, distinct)
}

fn c19(tier: &str, out: Option<&Path>) -> i32 {
    let t0 = Instant::now();
    let thorough = tier == "thorough";
    let col = Mutex::new(Collector::default());
    let evals = AtomicU64::new(0);
    let distinct = AtomicU64::new(0);
    // all kind combinations for 1..=4 classes
    let mut combos: Vec<Vec<usize>> = vec![];
    for k in 1..=4usize {
        let total = 5usize.pow(k as u32);
        for code in 0..total {
            let mut c = code;
            let mut v = vec![];
            for _ in 0..k {
                v.push(c % 5);
                c /= 5;
            }
            combos.push(v);
        }
    }
    let cores_list: Vec<usize> = if thorough {
        (1..=16).collect()
    } else {
        vec![1, 2, 3, 4, 7, 8, 16]
    };
    par_for(combos.len(), |i| {
        // the default class (used for requests that match no class) ranges over the
        // first and the last configured id
        let mut defaults = vec![0usize];
        if combos[i].len() > 1 {
            defaults.push(combos[i].len() - 1);
        }
        for default in defaults {
            let js = config_json(&combos[i], default);
            let cfg: ClassingConfig = match facet_json::from_str(&js) {
                Ok(c) => c,
                Err(e) => panic!("MACHINERY: generated config rejected by the deserialiser: {e:?}\n{js}"),
            };
            let desc = format!(
                "{} default={default}",
                combos[i].iter().map(|&k| KINDS[k]).collect::<Vec<_>>().join(",")
            );
            let (e, d) = c19_config(&cfg, &desc, &cores_list, thorough, &col);
            evals.fetch_add(e, Ordering::Relaxed);
            distinct.fetch_add(d, Ordering::Relaxed);
        }
    });
    // shipped configurations
    let mut shipped = vec![];
    if let Ok(rd) = std::fs::read_dir("/repo/results") {
        for e in rd.flatten() {
            let p = e.path();
            let name = p.file_name().unwrap().to_string_lossy().to_string();
            if name.starts_with("classes") && name.ends_with(".json") {
                shipped.push(p);
            }
        }
    }
    shipped.sort();
    for p in &shipped {
        let s = std::fs::read_to_string(p).unwrap();
        match facet_json::from_str::<ClassingConfig>(&s) {
            Ok(cfg) => {
                let (e, d) = c19_config(&cfg, &p.display().to_string(), &cores_list, thorough, &col);
                evals.fetch_add(e, Ordering::Relaxed);
                distinct.fetch_add(d, Ordering::Relaxed);
            }
            Err(e) => {
                eprintln!("shipped config {} not accepted by the deserialiser: {e:?}", p.display());
            }
        }
    }
    dom_finish(
        "C19",
        tier,
        t0,
        evals.load(Ordering::Relaxed),
        distinct.load(Ordering::Relaxed),
        "every configuration with 1-4 classes whose slot kinds range over {zero,one,cores,cores_half,pids} (780) x default class in {first, last id}, built through the real JSON deserialiser with order ranges / MOVABLE matchers that make every class reachable, plus the shipped results/classes*.json; x core counts x orders 0..=10 x 8 gfp words x boundary cores/pids {0,1,2,cores-1,cores,cores+1,2cores-1,63,64}^2, and every core x pid in 0..=64 (16 quick) for one (order,gfp) per class. Oracle: class configured in classing(cores), local None or < slot count; one get/put per distinct request on a real allocator under catch_unwind. distinct_nontrivial = distinct (class, local, order) requests per (config, cores)",
        vec![json!({"config": "one,cores", "cores": 4, "order": 0, "core": 5, "pid": 9, "gfp": 0})],
        json!({"kind_combinations": combos.len(), "shipped_configs": shipped.iter().map(|p| p.display().to_string()).collect::<Vec<_>>(), "core_counts": cores_list}),
        vec!["the full core x pid product is enumerated for one (order, gfp) per class only; the class choice depends on (order, gfp), the slot on (kind, core, cores, pid)".into()],
        col.into_inner().unwrap(),
        out,
    )
}

fn main() {
    let args: Vec<String> = std::env::args().collect();
    if args.len() < 3 {
        eprintln!("usage: vheval check <C19|C20> <tier> [--out file] | vheval replay <file>");
        std::process::exit(2);
    }
    vh::common::install_panic_hook();
    match args[1].as_str() {
        "check" => {
            let tier = args.get(3).cloned().unwrap_or_else(|| "quick".into());
            let out = args
                .iter()
                .position(|a| a == "--out")
                .and_then(|i| args.get(i + 1))
                .map(PathBuf::from);
            let code = match args[2].as_str() {
                "C19" => c19(&tier, out.as_deref()),
                "C20" => replaymc::c20(&tier, out.as_deref()),
                p => {
                    eprintln!("unknown property {p}");
                    2
                }
            };
            std::process::exit(code);
        }
        "replay" => {
            let s = std::fs::read_to_string(&args[2]).expect("read replay");
            let v: Value = serde_json::from_str(&s).expect("json");
            let code = match v["engine"].as_str() {
                Some("replaymc") => replaymc::replay(&v, &args[2]),
                Some("classes") => {
                    println!("class-configuration violations are re-checked by `./run C19 quick`: {}", v);
                    0
                }
                _ => 2,
            };
            std::process::exit(code);
        }
        _ => std::process::exit(2),
    }
}
