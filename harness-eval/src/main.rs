fn main(){}
