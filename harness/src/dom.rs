//! DOM: complete enumeration of finite input domains against the compiled functions
//! (DESIGN §4.4): C23, C16, C06, C08, C11, C12.

use std::path::Path;
use std::sync::Mutex;
use std::sync::atomic::{AtomicU64, AtomicUsize, Ordering};
use std::time::Instant;

use serde_json::{Map, Value, json};

use crate::oracle::Violation;
use crate::report::{Collector, Outcome, finish};

pub fn workers() -> usize {
    std::thread::available_parallelism()
        .map(|n| n.get())
        .unwrap_or(4)
}

/// Run `f(i)` for i in 0..n on all cores
pub fn par_for(n: usize, f: impl Fn(usize) + Sync) {
    let next = AtomicUsize::new(0);
    std::thread::scope(|s| {
        for _ in 0..workers().min(n.max(1)) {
            std::thread::Builder::new().stack_size(crate::common::WORKER_STACK).spawn_scoped(s, || {
                loop {
                    let i = next.fetch_add(1, Ordering::SeqCst);
                    if i >= n {
                        break;
                    }
                    // a panic of the subject outside a caught call (e.g. inside a query) must
                    // not take the engine down: it is reported by the caller's PANICS list
                    if let Err(msg) = crate::common::catch(|| f(i)) {
                        PANICS.lock().unwrap().push((i, msg));
                    }
                    // work items that call pure functions directly (C23, C16, C12) count as
                    // progress for the hang watchdog too
                    crate::common::PROGRESS.fetch_add(1, Ordering::Relaxed);
                }
            }).expect("spawn worker");
        }
    });
}

/// Panics of the subject that escaped into a work item: (item index, message)
pub static PANICS: Mutex<Vec<(usize, String)>> = Mutex::new(Vec::new());

pub fn dom_finish(
    prop: &str,
    tier: &str,
    t0: Instant,
    evaluations: u64,
    nontrivial: u64,
    rule: &str,
    samples: Vec<Value>,
    extra: Value,
    assumptions: Vec<String>,
    col: Collector,
    out: Option<&Path>,
) -> i32 {
    let mut m = Map::new();
    m.insert("engine".into(), json!("DOM: nested-loop enumeration of a finite input domain against the compiled function"));
    m.insert("evaluations".into(), json!(evaluations));
    m.insert("distinct_nontrivial".into(), json!(nontrivial));
    m.insert("rule".into(), json!(rule));
    m.insert("samples".into(), json!(samples));
    m.insert("exhaustive".into(), json!(true));
    if let Some(o) = extra.as_object() {
        for (k, v) in o {
            m.insert(k.clone(), v.clone());
        }
    }
    let mut col = col;
    for (i, msg) in PANICS.lock().unwrap().drain(..) {
        let sig = crate::common::panic_signature(&msg);
        col.add(
            Violation::new(
                crate::oracle::static_prop(prop),
                format!("panic in a query or unprotected call: {sig}"),
                format!("work item {i}: {msg}"),
            ),
            || json!({"engine": "dom", "check": prop, "work_item": i}),
        );
    }
    eprintln!(
        "[{prop}] evaluations={evaluations} nontrivial={nontrivial} secs={:.1}",
        t0.elapsed().as_secs_f64()
    );
    finish(
        Outcome {
            prop: prop.to_string(),
            tier: tier.to_string(),
            level: "model_checking",
            coverage: m,
            assumptions,
            collector: col,
            wall_s: t0.elapsed().as_secs_f64(),
        },
        out,
    )
}

// ---------------------------------------------------------------------------
// C23: row bit search
// ---------------------------------------------------------------------------

/// Naive oracle: lowest aligned all-zero block of 2^order bits
pub fn naive_first_zeros(v: u64, order: usize) -> Option<(u64, usize)> {
    let len = 1usize << order;
    let mut off = 0;
    while off < 64 {
        let mask = if len == 64 {
            u64::MAX
        } else {
            ((1u64 << len) - 1) << off
        };
        if v & mask == 0 {
            return Some((v | mask, off));
        }
        off += len;
    }
    None
}

fn c23_check(v: u64, col: &Mutex<Collector>, hits: &AtomicU64) -> u64 {
    let mut n = 0;
    for order in 0..=6usize {
        let got = llfree::verif::first_zeros_aligned(v, order);
        let want = naive_first_zeros(v, order);
        n += 1;
        if want.is_some() {
            hits.fetch_add(1, Ordering::Relaxed);
        }
        if got != want {
            col.lock().unwrap().add(
                Violation::new(
                    "C23",
                    format!("row search differs from the naive scan for order {order}"),
                    format!("row={v:#018x} order={order}: got {got:x?} expected {want:x?}"),
                ),
                || json!({"engine": "dom", "check": "C23", "row": format!("{v:#018x}"), "order": order}),
            );
        }
    }
    n
}

pub fn c23(tier: &str, out: Option<&Path>) -> i32 {
    let t0 = Instant::now();
    let thorough = tier == "thorough";
    let col = Mutex::new(Collector::default());
    let evals = AtomicU64::new(0);
    let hits = AtomicU64::new(0);
    let nontrivial = AtomicU64::new(0);
    let alpha16: [u8; 16] = [
        0x00, 0xff, 0x01, 0x80, 0x0f, 0xf0, 0x7f, 0xfe, 0x55, 0xaa, 0x10, 0x08, 0x33, 0xcc, 0x03,
        0xc0,
    ];
    // D1: all rows whose bytes come from a byte alphabet
    let alpha: Vec<u8> = if thorough {
        alpha16.to_vec()
    } else {
        alpha16[..8].to_vec()
    };
    let k = alpha.len();
    let d1 = |alpha: &[u8]| {
        let k = alpha.len();
        par_for(k * k, |hi| {
            let (b7, b6) = (alpha[hi / k], alpha[hi % k]);
            let mut n = 0u64;
            let mut nt = 0u64;
            let mut idx = [0usize; 6];
            loop {
                let mut v = ((b7 as u64) << 56) | ((b6 as u64) << 48);
                for (j, &i) in idx.iter().enumerate() {
                    v |= (alpha[i] as u64) << (8 * j);
                }
                n += c23_check(v, &col, &hits);
                if v != 0 && v != u64::MAX {
                    nt += 1;
                }
                // increment
                let mut j = 0;
                loop {
                    idx[j] += 1;
                    if idx[j] < k {
                        break;
                    }
                    idx[j] = 0;
                    j += 1;
                    if j == 6 {
                        break;
                    }
                }
                if j == 6 {
                    break;
                }
            }
            evals.fetch_add(n, Ordering::Relaxed);
            nontrivial.fetch_add(nt, Ordering::Relaxed);
        });
    };
    d1(&alpha);
    let d1_rows = (k as u64).pow(8);
    // D2: one arbitrary 16 bit lane, other lanes from a small set
    let others: [u16; 4] = [0x0000, 0xffff, 0x00ff, 0x8001];
    par_for(4 * 64, |i| {
        let pos = i / 64;
        let oi = i % 64;
        let o = [others[oi % 4], others[(oi / 4) % 4], others[(oi / 16) % 4]];
        let mut n = 0;
        for lane in 0..=u16::MAX {
            let mut v = 0u64;
            let mut oi2 = 0;
            for p in 0..4 {
                let l = if p == pos {
                    lane
                } else {
                    let x = o[oi2];
                    oi2 += 1;
                    x
                };
                v |= (l as u64) << (16 * p);
            }
            n += c23_check(v, &col, &hits);
        }
        evals.fetch_add(n, Ordering::Relaxed);
    });
    // D3: all rows with <= 3 set bits and all rows with <= 3 clear bits
    par_for(64, |a| {
        let mut n = 0;
        for b in a..64 {
            for c in b..64 {
                let v = (1u64 << a) | (1u64 << b) | (1u64 << c);
                n += c23_check(v, &col, &hits);
                n += c23_check(!v, &col, &hits);
            }
        }
        evals.fetch_add(n, Ordering::Relaxed);
    });
    c23_check(0, &col, &hits);
    c23_check(u64::MAX, &col, &hits);
    // D4: one more byte alphabet drawn from VERIF_SEED (thorough), enumerated completely
    let mut d4 = json!(null);
    if thorough {
        let mut rng = crate::report::seed() ^ 0x9E37_79B9_7F4A_7C15;
        let mut a: Vec<u8> = vec![0x00, 0xff];
        while a.len() < 8 {
            rng = rng.wrapping_mul(6364136223846793005).wrapping_add(1442695040888963407);
            let b = (rng >> 33) as u8;
            if !a.contains(&b) {
                a.push(b);
            }
        }
        d1(&a);
        d4 = json!({"byte_alphabet_from_seed": a, "rows": 8u64.pow(8)});
    }
    let samples = vec![
        json!({"row": "0x00000000ffffffff", "order": 5, "result": format!("{:x?}", llfree::verif::first_zeros_aligned(0x0000_0000_ffff_ffff, 5))}),
        json!({"row": "0x5500ff0180f07ffe", "order": 3, "result": format!("{:x?}", llfree::verif::first_zeros_aligned(0x5500_ff01_80f0_7ffe, 3))}),
    ];
    dom_finish(
        "C23",
        tier,
        t0,
        evals.load(Ordering::Relaxed),
        nontrivial.load(Ordering::Relaxed),
        "D1: every row whose 8 bytes come from the stated byte alphabet; D2: one arbitrary 16-bit lane (all 65536 values, 4 positions) with the other lanes in {0000,ffff,00ff,8001}; D3: all rows with <=3 set or <=3 clear bits; each for orders 0..=6 through the compiled first_zeros_aligned. distinct_nontrivial = D1 rows that are neither all-zero nor all-one (distinct by construction)",
        samples,
        json!({"d1_byte_alphabet": alpha, "d1_rows": d1_rows, "inputs_with_a_free_block": hits.load(Ordering::Relaxed),
            "d4": d4,
            "not_covered": "this is bounded-exhaustive over structured rows, not all 2^64 rows per order (that needs the solver family)"}),
        vec!["the compiled function is reached through llfree::verif::first_zeros_aligned (a forwarding pub fn behind feature verif)".into()],
        col.into_inner().unwrap(),
        out,
    )
}

// ---------------------------------------------------------------------------
// C16: SortedBuffer and search_best
// ---------------------------------------------------------------------------

fn c16_buffers<const N: usize>(maxlen: usize, vals: u8, col: &Mutex<Collector>) -> (u64, u64) {
    use llfree::util::SortedBuffer;
    let mut evals = 0u64;
    let mut nontrivial = 0u64;
    let mut seq: Vec<u8> = Vec::new();
    // iterative enumeration of all sequences of length 0..=maxlen over 0..vals
    fn rec<const N: usize>(
        seq: &mut Vec<u8>,
        maxlen: usize,
        vals: u8,
        evals: &mut u64,
        nontrivial: &mut u64,
        col: &Mutex<Collector>,
    ) {
        // evaluate this sequence
        let mut buf = SortedBuffer::<N, u8>::new();
        for &v in seq.iter() {
            buf.add(v);
        }
        let got: Vec<u8> = buf.iter().copied().collect();
        let mut want = seq.clone();
        want.sort();
        let want: Vec<u8> = want[want.len().saturating_sub(N)..].to_vec();
        *evals += 1;
        if seq.len() > N {
            *nontrivial += 1;
        }
        if got != want {
            let rev: Vec<u8> = buf.iter().rev().copied().collect();
            col.lock().unwrap().add(
                Violation::new(
                    "C16",
                    "candidate buffer does not hold the N greatest values in ascending order",
                    format!("N={N} inserted {seq:?}: buffer {got:?} expected {want:?} (tried best-first: {rev:?})"),
                ),
                || json!({"engine": "dom", "check": "C16-buffer", "n": N, "inserted": seq.clone()}),
            );
        }
        if seq.len() < maxlen {
            for v in 0..vals {
                seq.push(v);
                rec::<N>(seq, maxlen, vals, evals, nontrivial, col);
                seq.pop();
            }
        }
    }
    rec::<N>(&mut seq, maxlen, vals, &mut evals, &mut nontrivial, col);
    (evals, nontrivial)
}

/// Bits of a tree entry (documented layout: free:28, reserved:1, class:3)
fn tree_bits(free: usize, reserved: bool, class: u8) -> u32 {
    (free as u32) | ((reserved as u32) << 28) | ((class as u32) << 29)
}

#[derive(Clone, Copy, Debug, PartialEq, Eq, PartialOrd, Ord)]
enum Rating {
    // mirrors the derive(Ord) order of llfree::Policy: Match(x) < Demote < Steal
    Match(u8),
    Demote,
    Steal,
}

fn c16_search<const N: usize>(
    ntrees: usize,
    alphabet: &[(u8, usize, bool)],
    col: &Mutex<Collector>,
) -> (u64, u64) {
    use crate::common::{ClassingSpec, Config, InitMode, Sut};
    use llfree::{Class, Error, Init, Policy, TREE_FRAMES, TreeId};
    let cfg = Config::new(
        ntrees * TREE_FRAMES,
        ClassingSpec::movable(1),
        InitMode::FreeAll,
    );
    let mut sut = Sut::new(&cfg);
    // rating used by the search: depends on class and free
    let rate = |c: Class, free: usize| -> Policy {
        if free == 0 {
            return Policy::Invalid;
        }
        match c.0 {
            0 => {
                if free >= TREE_FRAMES / 2 {
                    Policy::Match(1)
                } else if free >= TREE_FRAMES / 64 {
                    Policy::Match(u8::MAX)
                } else {
                    Policy::Match(0)
                }
            }
            1 => Policy::Demote,
            _ => Policy::Steal,
        }
    };
    let rating = |p: Policy| -> Option<Rating> {
        match p {
            Policy::Match(x) => Some(Rating::Match(x)),
            Policy::Demote => Some(Rating::Demote),
            Policy::Steal => Some(Rating::Steal),
            Policy::Invalid => None,
        }
    };
    let k = alphabet.len();
    let total = k.pow(ntrees as u32);
    let mut evals = 0u64;
    let mut nontrivial = 0u64;
    for code in 0..total {
        // write the tree array
        let mut c = code;
        let mut trees: Vec<(u8, usize, bool)> = Vec::with_capacity(ntrees);
        for _ in 0..ntrees {
            trees.push(alphabet[c % k]);
            c /= k;
        }
        let tb = unsafe { sut.bufs.trees.slice_mut() };
        for (i, &(class, free, res)) in trees.iter().enumerate() {
            tb[i * 4..i * 4 + 4].copy_from_slice(&tree_bits(free, res, class).to_le_bytes());
        }
        sut.reinit(Init::None).expect("reinit");
        for start in 0..ntrees {
            let accessed = std::cell::RefCell::new(Vec::<usize>::new());
            let r: Result<(), Error> = sut.alloc.trees.search_best::<N, ()>(
                TreeId(start),
                0,
                ntrees,
                rate,
                |i| {
                    accessed.borrow_mut().push(i.0);
                    Err(Error::Memory)
                },
            );
            evals += 1;
            let accessed = accessed.into_inner();
            // expected
            let mut perfect: Vec<usize> = vec![];
            let mut cands: Vec<((Rating, bool), usize)> = vec![];
            for i in 0..ntrees {
                // scan order of the implementation
                let off: isize = if i % 2 == 0 {
                    (i / 2) as isize
                } else {
                    -((i as isize + 1) / 2)
                };
                let id = ((start + ntrees) as isize + off) as usize % ntrees;
                let (class, free, res) = trees[id];
                if res {
                    continue;
                }
                match rate(Class(class), free) {
                    Policy::Match(u8::MAX) => perfect.push(id),
                    Policy::Invalid => {}
                    p => cands.push(((rating(p).unwrap(), free == TREE_FRAMES), id)),
                }
            }
            let mut problem: Option<String> = None;
            if r != Err(Error::Memory) {
                problem = Some("search did not end with Err(Memory)".into());
            }
            // Only the fallback accesses are judged: the order in which perfect matches are
            // tried (and whether unusable trees are touched) is not part of the property.
            let _ = &perfect;
            let rest: Vec<usize> = accessed
                .iter()
                .copied()
                .filter(|id| cands.iter().any(|c| c.1 == *id))
                .collect();
            let mut keys: Vec<(Rating, bool)> = cands.iter().map(|c| c.0).collect();
            keys.sort();
            keys.reverse();
            keys.truncate(N);
            if cands.len() > N {
                nontrivial += 1;
            }
            let gk: Vec<(Rating, bool)> = rest
                .iter()
                .map(|id| cands.iter().find(|c| c.1 == *id).unwrap().0)
                .collect();
            let mut ids = rest.clone();
            ids.sort();
            ids.dedup();
            if ids.len() != rest.len() {
                problem = Some("a fallback tree was accessed twice".into());
            } else if gk != keys {
                problem = Some(format!(
                    "fallback candidates are not the best-rated ones, best first: tried ratings {gk:?}, expected {keys:?}"
                ));
            }
            if let Some(pr) = problem {
                col.lock().unwrap().add(
                    Violation::new(
                        "C16",
                        "tree search does not try the best-rated fallback candidates best first",
                        format!("N={N} trees(class,free,reserved)={trees:?} start={start}: accessed {accessed:?}: {pr}"),
                    ),
                    || json!({"engine": "dom", "check": "C16-search", "n": N,
                        "trees": trees.iter().map(|t| json!([t.0, t.1, t.2])).collect::<Vec<_>>(), "start": start}),
                );
            }
        }
    }
    (evals, nontrivial)
}

pub fn c16(tier: &str, out: Option<&Path>) -> i32 {
    use llfree::TREE_FRAMES;
    let t0 = Instant::now();
    let thorough = tier == "thorough";
    let col = Mutex::new(Collector::default());
    let evals = AtomicU64::new(0);
    let nontrivial = AtomicU64::new(0);
    let (maxlen, vals) = if thorough { (9, 5u8) } else { (8, 4u8) };
    par_for(8, |i| {
        let (e, n) = match i + 1 {
            1 => c16_buffers::<1>(maxlen, vals, &col),
            2 => c16_buffers::<2>(maxlen, vals, &col),
            3 => c16_buffers::<3>(maxlen, vals, &col),
            4 => c16_buffers::<4>(maxlen, vals, &col),
            5 => c16_buffers::<5>(maxlen, vals, &col),
            6 => c16_buffers::<6>(maxlen, vals, &col),
            7 => c16_buffers::<7>(maxlen, vals, &col),
            _ => c16_buffers::<8>(maxlen, vals, &col),
        };
        evals.fetch_add(e, Ordering::Relaxed);
        nontrivial.fetch_add(n, Ordering::Relaxed);
    });
    let buf_evals = evals.load(Ordering::Relaxed);
    // tree searches
    let alpha5: Vec<(u8, usize, bool)> = vec![
        (0, TREE_FRAMES, false),
        (0, TREE_FRAMES / 2, false),
        (0, 1, false),
        (1, TREE_FRAMES, false),
        (1, TREE_FRAMES / 64, false),
        (2, TREE_FRAMES, false),
        (2, 1, false),
        (0, TREE_FRAMES / 2, true),
        (0, 0, false),
    ];
    let alpha3: Vec<(u8, usize, bool)> = vec![(0, 1, false), (1, 5, false), (2, TREE_FRAMES, false)];
    let jobs: Vec<(usize, usize, bool)> = if thorough {
        vec![(3, 4, false), (3, 5, false), (3, 6, false), (8, 6, false), (3, 10, true), (8, 10, true)]
    } else {
        vec![(3, 4, false), (3, 5, false), (8, 5, false), (3, 9, true), (8, 9, true)]
    };
    par_for(jobs.len(), |j| {
        let (n, trees, small) = jobs[j];
        let alpha = if small { &alpha3 } else { &alpha5 };
        let (e, nt) = if n == 3 {
            c16_search::<3>(trees, alpha, &col)
        } else {
            c16_search::<8>(trees, alpha, &col)
        };
        evals.fetch_add(e, Ordering::Relaxed);
        nontrivial.fetch_add(nt, Ordering::Relaxed);
    });
    dom_finish(
        "C16",
        tier,
        t0,
        evals.load(Ordering::Relaxed),
        nontrivial.load(Ordering::Relaxed),
        "SortedBuffer<N,u8>, N=1..8: every insertion sequence up to the stated length over the stated value range; Trees::search_best::<3|8>: every tree array over the stated (class,free,reserved) alphabet x every start, `access` always answers Err(Memory) and records the order. non-trivial = more candidates than capacity",
        vec![json!({"buffer": {"N": 3, "inserted": [2, 0, 3, 1, 3]}}), json!({"search": {"N": 3, "trees": "(class,free,reserved) x 5", "start": 2}})],
        json!({"buffer_sequences": buf_evals, "max_sequence_length": maxlen, "values": vals,
            "search_jobs(N,trees,small_alphabet)": jobs,
            "rating_order": "the code's own Ord of (Policy, entirely_free): Match(x) < Demote < Steal; the check does not judge whether that variant order is intended"}),
        vec!["tree arrays are written directly into the trees buffer (documented Tree bit layout) and opened with Init::None".into()],
        col.into_inner().unwrap(),
        out,
    )
}

// ---------------------------------------------------------------------------
// C06: initialisation for every frame count
// ---------------------------------------------------------------------------

fn c06_one(n: usize, spec: &crate::common::ClassingSpec, col: &Mutex<Collector>) -> u64 {
    use crate::common::{Config, InitMode, Op, Res, Sut};
    use llfree::{Alloc, FrameId, HUGE_FRAMES, HUGE_ORDER, TREE_FRAMES};
    let mut evals = 0u64;
    let fail = |clause: &str, detail: String| {
        col.lock().unwrap().add(Violation::new("C06", clause.to_string(), detail), || {
            json!({"engine": "dom", "check": "C06", "frames": n, "classing": spec.json()})
        });
    };
    let class = spec.natural_class(0);
    let local = if n % 2 == 0 {
        spec.slots(class).filter(|&s| s > 0).map(|_| 0)
    } else {
        None
    };
    // ---- free-all
    let cfg = Config::new(n, spec.clone(), InitMode::FreeAll);
    // previous contents of the caller's buffers: zero, all ones, a pattern
    let fill = [0u8, 0xff, 0xa5, 0x01][(n / 3) % 4];
    let sut = match Sut::try_new_filled(&cfg, llfree::Init::FreeAll, n % 3 != 0, fill) {
        Ok(s) => s,
        Err(r) => {
            fail("free-all construction failed", format!("n={n}: {}", r.short()));
            return 1;
        }
    };
    let a = &sut.alloc;
    let s = a.stats();
    evals += 1;
    if (s.free_frames, s.free_huge, s.free_trees) != (n, n / HUGE_FRAMES, n / TREE_FRAMES) {
        fail(
            "fresh free-all allocator reports wrong counts",
            format!("n={n}: stats=({},{},{})", s.free_frames, s.free_huge, s.free_trees),
        );
    }
    if a.tree_stats().free_frames != n {
        fail(
            "fresh free-all allocator reports wrong fast count",
            format!("n={n}: tree_stats.free_frames={}", a.tree_stats().free_frames),
        );
    }
    let covered = n.div_ceil(HUGE_FRAMES) * HUGE_FRAMES;
    for f in 0..covered {
        let free = a.stats_at(FrameId(f), 0).free_frames == 1;
        evals += 1;
        if free != (f < n) {
            fail(
                if f < n {
                    "managed frame of a fresh free-all allocator not reported free"
                } else {
                    "frame at or beyond the managed count reported free"
                },
                format!("n={n} frame {f}: free={free}"),
            );
            break;
        }
    }
    let free_snapshot = (0..n)
        .map(|f| a.stats_at(FrameId(f), 0).free_frames)
        .collect::<Vec<_>>();
    let free_stats = (s.free_frames, s.free_huge, s.free_trees, a.tree_stats().free_frames);
    // allocate base frames until out of memory
    let op = Op::Get {
        order: 0,
        class,
        local,
        target: None,
    };
    let mut seen = vec![false; n];
    let mut count = 0usize;
    loop {
        evals += 1;
        match sut.apply(&op) {
            Res::Got(f, _) => {
                if f >= n || seen[f] {
                    fail(
                        "free-all allocator handed out an unmanaged or duplicate frame",
                        format!("n={n}: {} -> {f}", op.short()),
                    );
                    break;
                }
                seen[f] = true;
                count += 1;
            }
            Res::Err(crate::common::ErrKind::Memory) => break,
            r => {
                fail(
                    "allocation on a free-all allocator returned an unexpected result",
                    format!("n={n}: {} -> {}", op.short(), r.short()),
                );
                break;
            }
        }
        if count > n {
            break;
        }
    }
    if count != n {
        fail(
            "free-all allocator does not let exactly the managed frames be allocated",
            format!("n={n}: {count} base allocations succeeded (slot {local:?})"),
        );
    }
    drop(sut);
    // ---- allocate-all
    let cfg = Config::new(n, spec.clone(), InitMode::AllocAll);
    let sut = match Sut::try_new_filled(&cfg, llfree::Init::AllocAll, n % 3 != 0, fill) {
        Ok(s) => s,
        Err(r) => {
            fail("allocate-all construction failed", format!("n={n}: {}", r.short()));
            return evals;
        }
    };
    let a = &sut.alloc;
    let s = a.stats();
    evals += 1;
    if (s.free_frames, s.free_huge, s.free_trees, a.tree_stats().free_frames) != (0, 0, 0, 0) {
        fail(
            "fresh allocate-all allocator reports free frames",
            format!("n={n}: stats=({},{},{}) fast={}", s.free_frames, s.free_huge, s.free_trees, a.tree_stats().free_frames),
        );
    }
    for f in 0..covered {
        evals += 1;
        if a.stats_at(FrameId(f), 0).free_frames != 0 {
            fail(
                "fresh allocate-all allocator reports a free frame",
                format!("n={n} frame {f}"),
            );
            break;
        }
    }
    // a base allocation must fail
    if !matches!(sut.apply(&op), Res::Err(_)) {
        fail("allocation on a fresh allocate-all allocator succeeded", format!("n={n}"));
    }
    let hclass = spec.natural_class(HUGE_ORDER);
    for h in 0..n / HUGE_FRAMES {
        let p = Op::Put {
            frame: h * HUGE_FRAMES,
            order: HUGE_ORDER,
            class: hclass,
            local: if h % 2 == 0 { None } else { spec.slots(hclass).filter(|&s| s > 0).map(|_| 0) },
        };
        evals += 2;
        let r1 = sut.apply(&p);
        let r2 = sut.apply(&p);
        if r1 != Res::Done || !matches!(r2, Res::Err(_)) {
            fail(
                "whole huge frame of an allocate-all allocator not freeable exactly once at huge order",
                format!("n={n}: {} -> {} then {}", p.short(), r1.short(), r2.short()),
            );
            break;
        }
    }
    for f in n / HUGE_FRAMES * HUGE_FRAMES..n {
        let p = Op::Put {
            frame: f,
            order: 0,
            class,
            local: None,
        };
        evals += 2;
        let r1 = sut.apply(&p);
        let r2 = sut.apply(&p);
        if r1 != Res::Done || !matches!(r2, Res::Err(_)) {
            fail(
                "remaining frame of an allocate-all allocator not freeable exactly once at base order",
                format!("n={n}: {} -> {} then {}", p.short(), r1.short(), r2.short()),
            );
            break;
        }
    }
    let s = a.stats();
    let now = (s.free_frames, s.free_huge, s.free_trees, a.tree_stats().free_frames);
    if now != free_stats {
        fail(
            "allocate-all allocator after freeing everything differs from a free-all allocator",
            format!("n={n}: {now:?} vs {free_stats:?}"),
        );
    }
    for f in 0..n {
        if a.stats_at(FrameId(f), 0).free_frames != free_snapshot[f] {
            fail(
                "allocate-all allocator after freeing everything differs from a free-all allocator",
                format!("n={n}: frame {f}"),
            );
            break;
        }
    }
    if let Err(msg) = crate::common::catch(|| a.validate()) {
        fail("validate fails after freeing an allocate-all allocator", format!("n={n}: {msg}"));
    }
    // no frame at or beyond the managed count is reported free or handed out afterwards
    for f in n..covered {
        evals += 1;
        if a.stats_at(FrameId(f), 0).free_frames != 0 {
            fail(
                "frame at or beyond the managed count reported free",
                format!("n={n} (allocate-all, everything freed) frame {f}"),
            );
            break;
        }
    }
    let mut seen = vec![false; n];
    let mut count = 0usize;
    loop {
        evals += 1;
        match sut.apply(&op) {
            Res::Got(f, _) => {
                if f >= n || seen[f] {
                    fail(
                        "allocate-all allocator handed out an unmanaged or duplicate frame after everything was freed",
                        format!("n={n}: {} -> {f}", op.short()),
                    );
                    break;
                }
                seen[f] = true;
                count += 1;
            }
            _ => break,
        }
        if count > n {
            break;
        }
    }
    if count != n {
        fail(
            "allocate-all allocator does not let exactly the managed frames be allocated after everything was freed",
            format!("n={n}: {count} base allocations succeeded (slot {local:?})"),
        );
    }
    evals
}

pub fn c06(tier: &str, out: Option<&Path>) -> i32 {
    use crate::common::ClassingSpec;
    use llfree::{HUGE_FRAMES, TREE_FRAMES};
    let t0 = Instant::now();
    let thorough = tier == "thorough";
    let mut counts: Vec<usize> = Vec::new();
    let top = if thorough || llfree::TREE_HUGE <= 4 && HUGE_FRAMES <= 512 {
        3 * TREE_FRAMES + HUGE_FRAMES + 1
    } else {
        // quick tier, larger geometries: up to one tree and two huge frames
        TREE_FRAMES + 2 * HUGE_FRAMES + 1
    };
    if thorough {
        counts.extend(1..=top);
    } else {
        counts.extend(1..=2 * HUGE_FRAMES.min(512));
        for unit in [64usize, HUGE_FRAMES, TREE_FRAMES] {
            let width = if unit == 64 { 2 } else { 70 };
            let mut m = unit;
            while m <= 3 * TREE_FRAMES.min(4096) + unit {
                for d in 0..=width {
                    counts.push(m + d);
                    if m > d {
                        counts.push(m - d);
                    }
                }
                m += unit * if unit == 64 { 8 } else { 1 };
            }
        }
        counts.retain(|&n| n >= 1 && n <= top);
    }
    // structural boundaries of the metadata arrays far above `top`: the tree array packs 16
    // entries and the huge-entry tables 64 / (2 * TREE_HUGE) trees into one cache line, so
    // frame counts whose (partial) last tree starts a new line get their own band
    let lines: &[usize] = if thorough || TREE_FRAMES <= 2048 { &[8, 16, 17, 32] } else { &[8, 16] };
    for &k in lines {
        let m = k * TREE_FRAMES;
        for d in [0usize, 1, 2, 3, HUGE_FRAMES - 1, HUGE_FRAMES, HUGE_FRAMES + 1, TREE_FRAMES - 1] {
            counts.push(m + d);
        }
        counts.push(m - 1);
        counts.push(m - 2);
    }
    counts.sort();
    counts.dedup();
    let specs = [ClassingSpec::simple(1), ClassingSpec::movable(2)];
    let col = Mutex::new(Collector::default());
    let evals = AtomicU64::new(0);
    par_for(counts.len(), |i| {
        // the large counts come last: start with them so that they do not form the tail
        let n = counts[counts.len() - 1 - i];
        let e = c06_one(n, &specs[n % 2], &col);
        evals.fetch_add(e, Ordering::Relaxed);
    });
    dom_finish(
        "C06",
        tier,
        t0,
        evals.load(Ordering::Relaxed),
        counts.len() as u64,
        "for every frame count n of the list: free-all (counts, per-frame status incl. frames beyond n, allocate base frames until OOM = exactly n distinct frames < n) and allocate-all (counts 0, every whole huge frame freed exactly once at huge order, every other managed frame once at base order, then equal to free-all, validate). distinct_nontrivial = number of distinct frame counts",
        vec![json!({"frames": counts[counts.len() / 2]}), json!({"frames": counts[counts.len() - 1]})],
        json!({"frame_counts": counts.len(), "min": counts[0], "max": counts[counts.len()-1],
            "dense_every_count": thorough}),
        vec![],
        col.into_inner().unwrap(),
        out,
    )
}

// ---------------------------------------------------------------------------
// C11: a single-slot allocator finds every free base frame without draining
// ---------------------------------------------------------------------------

pub fn c11(tier: &str, out: Option<&Path>) -> i32 {
    use crate::common::{ClassingSpec, Config, ErrKind, InitMode, Op, PolicyKind, Res, Sut};
    use llfree::{HUGE_FRAMES, TREE_FRAMES, TreeId};
    let t0 = Instant::now();
    let thorough = tier == "thorough";
    let col = Mutex::new(Collector::default());
    let evals = AtomicU64::new(0);
    let histories = AtomicU64::new(0);
    let specs = vec![
        ClassingSpec::custom("single[(0,1)]", &[(0, 1)], 0, PolicyKind::Simple),
        ClassingSpec::simple(1),
        ClassingSpec::movable(1),
    ];
    let tree_counts: Vec<usize> = if thorough { vec![2, 3, 4] } else { vec![2, 3] };
    let mut jobs = vec![];
    for spec in &specs {
        for &t in &tree_counts {
            jobs.push((spec.clone(), t * TREE_FRAMES, InitMode::FreeAll));
        }
        // partial last tree (never entirely free: rated differently by multi-class policies)
        jobs.push((spec.clone(), 2 * TREE_FRAMES + HUGE_FRAMES / 2 + 3, InitMode::FreeAll));
        // allocate-all: every tree starts allocated with the default class, so frames freed
        // into it make a partially free tree of (possibly) another class
        jobs.push((spec.clone(), 3 * TREE_FRAMES, InitMode::AllocAll));
        jobs.push((spec.clone(), 2 * TREE_FRAMES + HUGE_FRAMES + 7, InitMode::AllocAll));
    }
    // more trees than the neighbourhood of the slot's start tree
    jobs.push((specs[1].clone(), 16 * TREE_FRAMES, InitMode::AllocAll));
    jobs.push((specs[1].clone(), 9 * TREE_FRAMES + 100, InitMode::AllocAll));
    jobs.push((specs[1].clone(), 9 * TREE_FRAMES + 100, InitMode::FreeAll));
    let k_other = if thorough { 5 } else { 3 };
    par_for(jobs.len(), |j| {
        let (spec, n, init) = &jobs[jobs.len() - 1 - j];
        let cfg = Config::new(*n, spec.clone(), *init);
        let sut = Sut::new(&cfg);
        let get = Op::Get {
            order: 0,
            class: 0,
            local: Some(0),
            target: None,
        };
        // exhaust
        let mut count = 0;
        while let Res::Got(..) = sut.apply(&get) {
            count += 1;
        }
        let mut ev = count as u64;
        let expect = if *init == InitMode::AllocAll { 0 } else { *n };
        if count != expect {
            col.lock().unwrap().add(
                Violation::new(
                    "C11",
                    "exhaustion through the single slot stopped early",
                    format!("{}: {count} of {expect} frames allocated", cfg.describe()),
                ),
                || json!({"engine": "dom", "check": "C11", "config": cfg.json(), "history": "fill"}),
            );
            evals.fetch_add(ev, Ordering::Relaxed);
            return;
        }
        // which tree does the slot hold?
        let reserved: Vec<usize> = (0..cfg.trees())
            .filter(|&t| sut.alloc.trees.stats_at(TreeId(t)).2)
            .collect();
        let rt = reserved.first().copied().unwrap_or(0);
        let rstart = rt * TREE_FRAMES;
        let rend = ((rt + 1) * TREE_FRAMES).min(*n);
        // candidates: five in the reserved tree (first, last, same row, same huge, other huge)
        let mut cands: Vec<usize> = vec![rstart, rstart + 1, rstart + 70, rend - 1];
        if rend - rstart > HUGE_FRAMES {
            cands.push(rstart + HUGE_FRAMES + 5);
        } else {
            cands.push(rstart + 200);
        }
        // others: first / last / middle of other trees
        let mut others = vec![];
        for t in 0..cfg.trees() {
            if t == rt {
                continue;
            }
            let s = t * TREE_FRAMES;
            let e = ((t + 1) * TREE_FRAMES).min(*n);
            others.push(s);
            others.push(e - 1);
            others.push(s + (e - s) / 2);
        }
        others.truncate(k_other);
        cands.extend(others);
        cands.retain(|&f| f < *n);
        cands.sort();
        cands.dedup();
        let k = cands.len();
        let base = sut.bufs.snapshot();
        let total = 3usize.pow(k as u32);
        for code in 0..total {
            sut.bufs.restore(&base);
            let mut c = code;
            let mut freed = 0usize;
            let mut hist = vec![];
            for &f in &cands {
                let mode = c % 3;
                c /= 3;
                if mode == 0 {
                    continue;
                }
                let put = Op::Put {
                    frame: f,
                    order: 0,
                    class: 0,
                    local: if mode == 1 { Some(0) } else { None },
                };
                let r = sut.apply(&put);
                ev += 1;
                if r != Res::Done {
                    col.lock().unwrap().add(
                        Violation::new("C02", "free of an allocated frame failed", format!("{} -> {}", put.short(), r.short())),
                        || json!({"engine": "dom", "check": "C11", "config": cfg.json()}),
                    );
                }
                hist.push(put);
                freed += 1;
            }
            let mut got = 0usize;
            let mut bad = None;
            loop {
                ev += 1;
                match sut.apply(&get) {
                    Res::Got(f, _) => {
                        if !cands.contains(&f) {
                            bad = Some(f);
                            break;
                        }
                        got += 1;
                        if got > freed {
                            break;
                        }
                    }
                    Res::Err(ErrKind::Memory) => break,
                    _ => break,
                }
            }
            if got != freed || bad.is_some() {
                let shape = format!(
                    "{} freed through the slot, {} without",
                    hist.iter().filter(|o| matches!(o, Op::Put { local: Some(_), .. })).count(),
                    hist.iter().filter(|o| matches!(o, Op::Put { local: None, .. })).count()
                );
                col.lock().unwrap().add(
                    Violation::new(
                        "C11",
                        "allocation through the single slot failed although a frame is free",
                        format!(
                            "{}: after exhaustion and frees [{}] ({shape}) only {got} of {freed} allocations succeeded (unexpected frame: {bad:?})",
                            cfg.describe(),
                            hist.iter().map(|o| o.short()).collect::<Vec<_>>().join("; ")
                        ),
                    ),
                    || json!({"engine": "dom", "check": "C11", "config": cfg.json(),
                        "frees": hist.iter().map(|o| o.json()).collect::<Vec<_>>()}),
                );
            }
        }
        histories.fetch_add(total as u64, Ordering::Relaxed);
        // ---- bulk family: free the first / last k frames of one tree (counter boundaries up
        // to the whole tree), all through the slot / all without / alternating / half-half
        let mut amounts = vec![1usize, 2, 63, 64, 65, HUGE_FRAMES - 1, HUGE_FRAMES, HUGE_FRAMES + 1, TREE_FRAMES - 1, TREE_FRAMES];
        amounts.sort();
        amounts.dedup();
        let mut bulk = 0u64;
        for t in 0..cfg.trees() {
            let ts = t * TREE_FRAMES;
            let te = ((t + 1) * TREE_FRAMES).min(*n);
            for &k in &amounts {
                if k > te - ts {
                    continue;
                }
                for from_end in [false, true] {
                    for mode in 0..4usize {
                        for extra_other in [false, true] {
                            sut.bufs.restore(&base);
                            let start = if from_end { te - k } else { ts };
                            let mut freed = 0usize;
                            for (i, f) in (start..start + k).enumerate() {
                                let local = match mode {
                                    0 => Some(0),
                                    1 => None,
                                    2 => (i % 2 == 0).then_some(0),
                                    _ => (i < k / 2).then_some(0),
                                };
                                let r = sut.apply(&Op::Put { frame: f, order: 0, class: 0, local });
                                ev += 1;
                                if r == Res::Done {
                                    freed += 1;
                                }
                            }
                            if extra_other {
                                // one more frame in another tree, without slot
                                let other = (t + 1) % cfg.trees();
                                if other != t {
                                    let f = other * TREE_FRAMES + 3;
                                    if sut.apply(&Op::Put { frame: f, order: 0, class: 0, local: None }) == Res::Done {
                                        freed += 1;
                                    }
                                }
                            }
                            let mut got = 0usize;
                            while got <= freed {
                                ev += 1;
                                match sut.apply(&get) {
                                    Res::Got(..) => got += 1,
                                    _ => break,
                                }
                            }
                            bulk += 1;
                            if got != freed {
                                col.lock().unwrap().add(
                                    Violation::new(
                                        "C11",
                                        "allocation through the single slot failed although a frame is free",
                                        format!(
                                            "{}: after exhaustion, freeing {k} frames {}..{} of tree {t} (slot's reserved tree: {rt}; mode {}; extra frame in another tree: {extra_other}): only {got} of {freed} allocations succeeded",
                                            cfg.describe(), start, start + k,
                                            ["all through the slot", "all without slot", "alternating", "first half through the slot"][mode]
                                        ),
                                    ),
                                    || json!({"engine": "dom", "check": "C11-bulk", "config": cfg.json(), "tree": t, "k": k,
                                        "from_end": from_end, "mode": mode, "extra_other": extra_other}),
                                );
                            }
                        }
                    }
                }
            }
        }
        histories.fetch_add(bulk, Ordering::Relaxed);
        evals.fetch_add(ev, Ordering::Relaxed);
    });
    dom_finish(
        "C11",
        tier,
        t0,
        evals.load(Ordering::Relaxed),
        histories.load(Ordering::Relaxed),
        "per configuration: exhaust memory through slot 0 (order 0, class 0), then every assignment of {keep, free through the slot, free without slot} to 8-10 structurally chosen frames (5 in the slot's reserved tree: first, second, another row, last, another huge frame; the rest first/last/middle of other trees), then allocate until out of memory: successes must equal frees. Bulk family: per tree, free the first/last k frames for k in {1,2,63,64,65,HUGE-1,HUGE,HUGE+1,TREE-1,TREE} all through the slot / all without / alternating / half-half, optionally plus one frame of another tree. distinct_nontrivial = number of histories",
        vec![json!({"frames": 2 * TREE_FRAMES, "classing": "single[(0,1)]", "assignment": "3^k codes, e.g. [free@slot, keep, free no slot, ...]"})],
        json!({"configurations": jobs.len(), "histories": histories.load(Ordering::Relaxed)}),
        vec!["'any subset' is every assignment over a structurally chosen candidate set, not every subset of all frames".into()],
        col.into_inner().unwrap(),
        out,
    )
}

// ---------------------------------------------------------------------------
// C12: search within one tree finds any aligned free block
// ---------------------------------------------------------------------------

#[derive(Clone, Debug, PartialEq)]
enum HugePat {
    /// allocated as a whole huge frame
    Whole,
    /// every frame allocated individually (counter 0, all bits set)
    AllSmall,
    Free,
    /// all allocated except the aligned block `idx` of `order`
    OnlyBlockFree(usize, usize),
    /// all free except one frame
    OnlyBitAllocated(usize),
    /// bit i set: row i is fully allocated, else entirely free
    Rows(u8),
    /// all allocated except two non-buddy half blocks (2j+1, 2j+2) of `order`
    TwoHalves(usize, usize),
}

struct TreeLab {
    sut: crate::common::Sut,
}

impl TreeLab {
    fn new() -> Self {
        use crate::common::{ClassingSpec, Config, InitMode, Sut};
        let cfg = Config::new(
            2 * llfree::TREE_FRAMES,
            ClassingSpec::simple(1),
            InitMode::AllocAll,
        );
        Self { sut: Sut::new(&cfg) }
    }
    /// Build the pattern in tree 0 through the lower allocator's own calls
    fn build(&self, pats: &[HugePat]) {
        use llfree::{FrameId, HUGE_FRAMES, HUGE_ORDER};
        let lower = &self.sut.alloc.lower;
        let row0 = llfree::verif::frame_row(FrameId(0));
        for (h, p) in pats.iter().enumerate() {
            let base = h * HUGE_FRAMES;
            let free_huge = || lower.put(FrameId(base), HUGE_ORDER).expect("free huge");
            let alloc = |f: usize, o: usize| {
                lower.get(row0, o, Some(FrameId(f))).expect("targeted lower get");
            };
            match p {
                HugePat::Whole => {}
                HugePat::Free => free_huge(),
                HugePat::AllSmall => {
                    free_huge();
                    for r in 0..HUGE_FRAMES / 64 {
                        alloc(base + r * 64, 6);
                    }
                }
                HugePat::OnlyBlockFree(o, idx) => {
                    free_huge();
                    for r in 0..HUGE_FRAMES / 64 {
                        alloc(base + r * 64, 6);
                    }
                    lower.put(FrameId(base + idx * (1 << o)), *o).expect("free block");
                }
                HugePat::OnlyBitAllocated(x) => {
                    free_huge();
                    alloc(base + x, 0);
                }
                HugePat::Rows(mask) => {
                    free_huge();
                    for r in 0..8.min(HUGE_FRAMES / 64) {
                        if mask & (1 << r) != 0 {
                            alloc(base + r * 64, 6);
                        }
                    }
                }
                HugePat::TwoHalves(o, j) => {
                    free_huge();
                    for r in 0..HUGE_FRAMES / 64 {
                        alloc(base + r * 64, 6);
                    }
                    let half = 1usize << (o - 1);
                    lower.put(FrameId(base + (2 * j + 1) * half), o - 1).expect("half 1");
                    lower.put(FrameId(base + (2 * j + 2) * half), o - 1).expect("half 2");
                }
            }
        }
    }
}

fn c12_probe(
    lab: &TreeLab,
    pats: &[HugePat],
    orders: &[usize],
    col: &Mutex<Collector>,
    nontrivial: &mut u64,
) -> u64 {
    use llfree::{Alloc, FrameId, TREE_FRAMES, TREE_ORDER};
    let sut = &lab.sut;
    let a = &sut.alloc;
    let base = sut.bufs.snapshot();
    // model: per frame status of tree 0
    let status: Vec<bool> = (0..TREE_FRAMES)
        .map(|f| a.stats_at(FrameId(f), 0).free_frames == 1)
        .collect();
    let free_before = a.stats_at(FrameId(0), TREE_ORDER).free_frames;
    let mut evals = 0;
    for &order in orders {
        let len = 1usize << order;
        let exists = (0..TREE_FRAMES / len).any(|b| status[b * len..(b + 1) * len].iter().all(|&x| x));
        if exists && (status.iter().filter(|&&x| x).count() > len) {
            *nontrivial += 1;
        }
        for hint in 0..TREE_FRAMES / 64 {
            sut.bufs.restore(&base);
            let row = llfree::verif::frame_row(FrameId(hint * 64));
            let r = crate::common::catch_call(|| a.lower.get(row, order, None));
            evals += 1;
            let mut problem = None;
            match r {
                Err(msg) => problem = Some(format!("panicked: {msg}")),
                Ok(Err(_)) => {
                    if exists {
                        problem = Some("failed although an aligned free block exists".to_string());
                    }
                }
                Ok(Ok(f)) => {
                    let f = f.0;
                    if f % len != 0 || f + len > TREE_FRAMES {
                        problem = Some(format!("returned block {f} outside the tree or misaligned"));
                    } else if !status[f..f + len].iter().all(|&x| x) {
                        problem = Some(format!("returned block {f} that was not entirely free"));
                    } else {
                        // exactly that block flipped
                        for g in 0..TREE_FRAMES {
                            let now = a.stats_at(FrameId(g), 0).free_frames == 1;
                            let want = status[g] && !(g >= f && g < f + len);
                            if now != want {
                                problem = Some(format!("block {f}: frame {g} has status free={now}, expected {want}"));
                                break;
                            }
                        }
                        let free_after = a.stats_at(FrameId(0), TREE_ORDER).free_frames;
                        if problem.is_none() && free_after + len != free_before {
                            problem = Some(format!("counters moved by {} instead of {len}", free_before - free_after));
                        }
                    }
                }
            }
            if let Some(pr) = problem {
                col.lock().unwrap().add(
                    Violation::new(
                        "C12",
                        if pr.contains("failed although") {
                            "directed allocation failed although the tree contains an aligned free block".to_string()
                        } else {
                            "directed allocation marked something else than exactly one free block".to_string()
                        },
                        format!("pattern {pats:?} order {order} row hint {hint}: {pr}"),
                    ),
                    || json!({"engine": "dom", "check": "C12", "pattern": format!("{pats:?}"), "order": order, "hint": hint}),
                );
                return evals;
            }
        }
    }
    sut.bufs.restore(&base);
    evals
}

pub fn c12(tier: &str, out: Option<&Path>) -> i32 {
    use llfree::{HUGE_FRAMES, HUGE_ORDER, TREE_HUGE, TREE_ORDER};
    let t0 = Instant::now();
    let thorough = tier == "thorough";
    let col = Mutex::new(Collector::default());
    let evals = AtomicU64::new(0);
    let nontrivial = AtomicU64::new(0);
    let patterns = AtomicU64::new(0);
    let all_orders: Vec<usize> = (0..=TREE_ORDER).collect();
    // job list: (family, params)
    #[derive(Clone)]
    enum Job {
        Single(usize, usize, bool), // order, huge index, others AllSmall?
        Frag(usize, usize),
        Rows(usize),                // huge index, all 256 row masks
        HugeLevel(usize),           // code over {Whole, AllSmall, Free, Rows(0x55)}^TREE_HUGE
        Bit(usize),
    }
    let mut jobs: Vec<Job> = vec![];
    for o in 0..HUGE_ORDER {
        for h in 0..TREE_HUGE {
            if !thorough && h != 0 && h != TREE_HUGE - 1 {
                continue;
            }
            jobs.push(Job::Single(o, h, false));
            if thorough || o % 3 == 0 {
                jobs.push(Job::Single(o, h, true));
            }
        }
    }
    for o in 1..HUGE_ORDER {
        jobs.push(Job::Frag(o, 0));
        if TREE_HUGE > 1 {
            jobs.push(Job::Frag(o, TREE_HUGE - 1));
        }
    }
    for h in 0..TREE_HUGE {
        if thorough || h == 0 || h == TREE_HUGE - 1 {
            jobs.push(Job::Rows(h));
        }
    }
    let hl = 4usize.pow(TREE_HUGE.min(4) as u32);
    for code in 0..hl {
        jobs.push(Job::HugeLevel(code));
    }
    for h in 0..TREE_HUGE {
        jobs.push(Job::Bit(h));
    }
    par_for(jobs.len(), |ji| {
        let lab = TreeLab::new();
        let fresh = lab.sut.bufs.snapshot();
        let mut ev = 0u64;
        let mut nt = 0u64;
        let mut np = 0u64;
        let mut run = |pats: Vec<HugePat>, orders: &[usize]| {
            lab.sut.bufs.restore(&fresh);
            lab.build(&pats);
            ev += c12_probe(&lab, &pats, orders, &col, &mut nt);
            np += 1;
        };
        match jobs[ji].clone() {
            Job::Single(o, h, small) => {
                let blocks = HUGE_FRAMES >> o;
                // every position for small counts, a dense sample of boundary positions otherwise
                let idxs: Vec<usize> = if blocks <= 64 || thorough {
                    (0..blocks).collect()
                } else {
                    let mut v: Vec<usize> = (0..blocks).filter(|i| {
                        let per_row = 64 >> o;
                        let in_row = i % per_row;
                        in_row == 0 || in_row == per_row - 1 || in_row == per_row / 2 || i % 37 == 0
                    }).collect();
                    v.dedup();
                    v
                };
                for idx in idxs {
                    let mut pats = vec![if small { HugePat::AllSmall } else { HugePat::Whole }; TREE_HUGE];
                    pats[h] = HugePat::OnlyBlockFree(o, idx);
                    // probe the exact order, one below and one above
                    let mut orders = vec![o];
                    if o > 0 {
                        orders.push(o - 1);
                    }
                    orders.push(o + 1);
                    run(pats, &orders);
                }
            }
            Job::Frag(o, h) => {
                let halves = HUGE_FRAMES >> (o - 1);
                for j in 0..(halves / 2).saturating_sub(1) {
                    let mut pats = vec![HugePat::AllSmall; TREE_HUGE];
                    pats[h] = HugePat::TwoHalves(o, j);
                    run(pats, &[o, o - 1]);
                }
            }
            Job::Rows(h) => {
                for mask in 0..=255u8 {
                    let mut pats = vec![HugePat::Whole; TREE_HUGE];
                    pats[h] = HugePat::Rows(mask);
                    let mut orders = vec![0, 5, 6, 7, 8, HUGE_ORDER];
                    orders.retain(|&o| o <= TREE_ORDER);
                    run(pats, &orders);
                }
            }
            Job::HugeLevel(code) => {
                let mut c = code;
                let mut pats = vec![];
                for _ in 0..TREE_HUGE.min(4) {
                    pats.push(match c % 4 {
                        0 => HugePat::Whole,
                        1 => HugePat::AllSmall,
                        2 => HugePat::Free,
                        _ => HugePat::Rows(0x55),
                    });
                    c /= 4;
                }
                while pats.len() < TREE_HUGE {
                    pats.push(HugePat::Whole);
                }
                run(pats, &all_orders);
            }
            Job::Bit(h) => {
                for x in [0usize, 1, 63, 64, 255, 256, HUGE_FRAMES - 1] {
                    let mut pats = vec![HugePat::Whole; TREE_HUGE];
                    pats[h] = HugePat::OnlyBitAllocated(x);
                    run(pats, &all_orders);
                }
            }
        }
        evals.fetch_add(ev, Ordering::Relaxed);
        nontrivial.fetch_add(nt, Ordering::Relaxed);
        patterns.fetch_add(np, Ordering::Relaxed);
    });
    dom_finish(
        "C12",
        tier,
        t0,
        evals.load(Ordering::Relaxed),
        patterns.load(Ordering::Relaxed),
        "tree patterns built through the lower allocator's own calls from allocate-all: (a) exactly one aligned block of order o free at every position, other huge entries whole-allocated or small-allocated; (b) fragmented: two non-buddy halves free (counter >= 2^o, no aligned block); (c) all 256 full/empty row patterns of one huge frame; (d) every huge-entry combination over {whole, small, free, alternating rows}; (e) single allocated bit; each probed with Lower::get(hint, order, None) from every row hint of the tree. Oracle: fails only if no aligned free block exists; success flips exactly one free block and moves the counters by 2^o. distinct_nontrivial = distinct patterns",
        vec![json!({"pattern": "[Whole, OnlyBlockFree(3, 17), Whole, Whole]", "order": 3, "hints": "0..32"})],
        json!({"patterns": patterns.load(Ordering::Relaxed), "pattern_order_pairs_with_a_choice": nontrivial.load(Ordering::Relaxed)}),
        vec![],
        col.into_inner().unwrap(),
        out,
    )
}

// ---------------------------------------------------------------------------
// C08: invalid arguments are rejected without side effects
// ---------------------------------------------------------------------------

pub fn c08(tier: &str, out: Option<&Path>) -> i32 {
    use crate::common::{ClassingSpec, Config, ErrKind, InitMode, Op, Res, Sut};
    use llfree::wrapper::ZoneAlloc;
    use llfree::{
        Alloc, Class, Error, FrameId, HUGE_FRAMES, HUGE_ORDER, Init, LLFree, MetaData, Request,
        TREE_FRAMES, TREE_ORDER,
    };
    let t0 = Instant::now();
    let thorough = tier == "thorough";
    let col = Mutex::new(Collector::default());
    let evals = AtomicU64::new(0);
    let invalid_calls = AtomicU64::new(0);
    let specs = vec![
        ClassingSpec::custom("one[(0,1)]", &[(0, 1)], 0, crate::common::PolicyKind::Simple),
        ClassingSpec::simple(1),
        ClassingSpec::movable(2),
        ClassingSpec::custom("sparse[(1,1),(5,2)]", &[(1, 1), (5, 2)], 1, crate::common::PolicyKind::Simple),
    ];
    let frame_counts: Vec<usize> = if thorough {
        vec![HUGE_FRAMES - 1, TREE_FRAMES, TREE_FRAMES + HUGE_FRAMES + 3, 3 * TREE_FRAMES + 1]
    } else {
        vec![TREE_FRAMES, TREE_FRAMES + HUGE_FRAMES + 3]
    };
    let mut jobs = vec![];
    for s in &specs {
        for &n in &frame_counts {
            for st in 0..3 {
                jobs.push((s.clone(), n, st));
            }
        }
    }
    par_for(jobs.len(), |j| {
        let (spec, n, st) = &jobs[j];
        let (n, st) = (*n, *st);
        let cfg = Config::new(
            n,
            spec.clone(),
            if st == 2 { InitMode::AllocAll } else { InitMode::FreeAll },
        );
        let sut = Sut::new(&cfg);
        let c0 = spec.classes[0].0;
        if st == 1 {
            // half used, with a reservation
            let local = spec.slots(c0).filter(|&s| s > 0).map(|_| 0);
            for o in [0usize, 0, 3, 6] {
                let _ = sut.apply(&Op::Get { order: o, class: c0, local, target: None });
            }
        }
        let base = sut.bufs.snapshot();
        let mut after = Vec::new();
        let mut ev = 0u64;
        let mut inv = 0u64;
        let last = n - 1;
        for order in 0..=TREE_ORDER + 3 {
            let len = 1usize << order;
            let mut frames: Vec<usize> = vec![0, 1, len - 1, len, last, n, n + 1, n.div_ceil(TREE_FRAMES) * TREE_FRAMES];
            if last > 0 {
                frames.push(last - 1);
            }
            if n >= len {
                frames.push(n - len);
                frames.push(n - len + 1);
                frames.push((n - len) / len * len);
            }
            for a in [len, 2 * len, n / 2 / len * len] {
                for m in [1usize, len / 2, len - 1] {
                    if m > 0 && m < len {
                        frames.push(a + m);
                    }
                }
            }
            if order <= 4 {
                for m in 1..len {
                    frames.push(len + m);
                }
            }
            frames.sort();
            frames.dedup();
            for class in 0..8u8 {
                let configured = spec.slots(class).is_some();
                let mut locals = vec![None];
                if spec.slots(class).unwrap_or(1) > 0 {
                    locals.push(Some(0));
                }
                for local in locals {
                    // untargeted get
                    {
                        let invalid = order > TREE_ORDER || len > n || !configured;
                        if invalid {
                            let op = Op::Get { order, class, local, target: None };
                            let r = sut.apply(&op);
                            sut.bufs.snapshot_into(&mut after);
                            ev += 1;
                            inv += 1;
                            if r != Res::Err(ErrKind::Argument) || after != base {
                                col.lock().unwrap().add(
                                    Violation::new(
                                        "C08",
                                        "invalid allocation not rejected with an argument error and no side effects",
                                        format!("{}: {} -> {} unchanged={}", cfg.describe(), op.short(), r.short(), after == base),
                                    ),
                                    || json!({"engine": "dom", "check": "C08", "config": cfg.json(), "op": op.json(), "state": st}),
                                );
                                sut.bufs.restore(&base);
                            }
                        }
                    }
                    for &f in &frames {
                        let invalid = order > TREE_ORDER
                            || f.checked_add(len).is_none_or(|e| e > n)
                            || f % len != 0
                            || !configured;
                        if !invalid {
                            continue;
                        }
                        for put in [false, true] {
                            let op = if put {
                                Op::Put { frame: f, order, class, local }
                            } else {
                                Op::Get { order, class, local, target: Some(f) }
                            };
                            let r = sut.apply(&op);
                            sut.bufs.snapshot_into(&mut after);
                            ev += 1;
                            inv += 1;
                            if r != Res::Err(ErrKind::Argument) || after != base {
                                col.lock().unwrap().add(
                                    Violation::new(
                                        "C08",
                                        if put {
                                            "invalid free not rejected with an argument error and no side effects"
                                        } else {
                                            "invalid targeted allocation not rejected with an argument error and no side effects"
                                        },
                                        format!("{}: {} -> {} unchanged={}", cfg.describe(), op.short(), r.short(), after == base),
                                    ),
                                    || json!({"engine": "dom", "check": "C08", "config": cfg.json(), "op": op.json(), "state": st}),
                                );
                                sut.bufs.restore(&base);
                            }
                        }
                    }
                }
            }
        }
        evals.fetch_add(ev, Ordering::Relaxed);
        invalid_calls.fetch_add(inv, Ordering::Relaxed);
    });

    // ---- zone wrapper: frames below the offset
    {
        let spec = ClassingSpec::simple(1);
        let classing = spec.build();
        let n = TREE_FRAMES + HUGE_FRAMES;
        for offset in [TREE_FRAMES, 3 * TREE_FRAMES, (1usize << 20) * TREE_FRAMES] {
            let ms = LLFree::metadata_size(&classing, n);
            let bufs = crate::common::Bufs::new(&ms, true);
            let meta = unsafe {
                MetaData {
                    local: bufs.local.slice_mut(),
                    trees: bufs.trees.slice_mut(),
                    lower: bufs.lower.slice_mut(),
                }
            };
            let zone: ZoneAlloc<LLFree> =
                ZoneAlloc::create(offset, n, Init::FreeAll, &classing, meta).expect("zone");
            let base = bufs.snapshot();
            let mut ev = 0;
            for order in [0usize, 3, HUGE_ORDER] {
                let len = 1usize << order;
                for f in [0usize, len, offset - len, offset - 1, offset / 2 / len * len] {
                    if f >= offset {
                        continue;
                    }
                    let req = Request::new(order, Class(0), None);
                    let rg = crate::common::catch(|| zone.get(Some(FrameId(f)), req));
                    let rp = crate::common::catch(|| zone.put(FrameId(f), req));
                    let st = crate::common::catch(|| zone.stats_at(FrameId(f), order));
                    ev += 3;
                    let ok = matches!(rg, Ok(Err(Error::Argument)))
                        && matches!(rp, Ok(Err(Error::Argument)))
                        && st.as_ref().is_ok_and(|s| s.free_frames == 0 && s.free_huge == 0 && s.free_trees == 0)
                        && bufs.snapshot() == base;
                    if !ok {
                        col.lock().unwrap().add(
                            Violation::new(
                                "C08",
                                "zone wrapper does not reject a frame below its offset",
                                format!("offset {offset} frame {f} order {order}: get {:?} put {:?}", rg.map(|r| r.map(|x| x.0.0)), rp),
                            ),
                            || json!({"engine": "dom", "check": "C08-zone", "offset": offset, "frame": f, "order": order}),
                        );
                    }
                }
            }
            // misaligned zone offset is an initialization error
            evals.fetch_add(ev, Ordering::Relaxed);
            invalid_calls.fetch_add(ev, Ordering::Relaxed);
        }
    }

    // ---- bad metadata buffers (in a child process: accepting a misaligned buffer can abort)
    {
        let exe = std::env::current_exe().expect("current exe");
        let outp = std::process::Command::new(exe)
            .args(["child", "c08meta", tier])
            .output()
            .expect("spawn child");
        let text = String::from_utf8_lossy(&outp.stdout).to_string();
        let mut last_case = String::new();
        let mut done = None;
        for l in text.lines() {
            if let Some(c) = l.strip_prefix("CASE ") {
                last_case = c.to_string();
            } else if let Some(v) = l.strip_prefix("VIOL\t") {
                let mut it = v.splitn(2, '\t');
                let clause = it.next().unwrap_or("").to_string();
                let detail = it.next().unwrap_or("").to_string();
                col.lock().unwrap().add(Violation::new("C08", clause, detail.clone()), || {
                    json!({"engine": "dom", "check": "C08-meta", "what": detail})
                });
            } else if let Some(n) = l.strip_prefix("DONE ") {
                done = n.trim().parse::<u64>().ok();
            }
        }
        match done {
            Some(n) => {
                evals.fetch_add(n, Ordering::Relaxed);
                invalid_calls.fetch_add(n, Ordering::Relaxed);
            }
            None => {
                col.lock().unwrap().add(
                    Violation::new(
                        "C08",
                        "construction with bad metadata buffers crashed the process instead of returning an initialization error",
                        format!("child exited with {:?} during: {last_case}; stderr: {}", outp.status, String::from_utf8_lossy(&outp.stderr).chars().take(300).collect::<String>()),
                    ),
                    || json!({"engine": "dom", "check": "C08-meta", "what": last_case}),
                );
            }
        }
    }
    dom_finish(
        "C08",
        tier,
        t0,
        evals.load(Ordering::Relaxed),
        invalid_calls.load(Ordering::Relaxed),
        "states {fresh free-all, half used with a reservation, allocate-all} x 4 classings x frame counts; orders 0..=TREE_ORDER+3 x boundary frames (0,1,2^o-1,2^o,last-1,last,n-2^o,n-2^o+1,n,n+1,end of last tree, misaligned by 1, 2^o/2, 2^o-1 and by every 1..2^o-1 for o<=4) x classes 0..7 x slot {none,0} x {get, get targeted, put}; only calls that are invalid by the stated rule are issued: each must return Err(Argument) and leave all three buffers byte-identical. Zone wrapper: frames below offsets {1,3,2^20 trees}. Metadata: each buffer one byte short, shifted by 1..63 bytes, overlapping another (end, same start, nested). distinct_nontrivial = number of invalid calls issued",
        vec![json!({"op": "put(2047,o1,C0,s-)", "frames": TREE_FRAMES, "expected": "Err(Argument), no change"})],
        json!({}),
        vec![],
        col.into_inner().unwrap(),
        out,
    )
}

/// C08: construction over bad metadata buffers (short, misaligned, overlapping) must
/// return an initialization error. Runs in a child process when `announce` is set (an
/// accepted misaligned buffer can abort the process).
pub fn c08_meta(thorough: bool, announce: bool, col: &Mutex<Collector>) -> u64 {
    use crate::common::{ClassingSpec, GuardBuf};
    use llfree::{Alloc, Error, HUGE_FRAMES, Init, LLFree, MetaData, TREE_FRAMES};
    let mut ev = 0u64;
        for spec in [ClassingSpec::simple(1), ClassingSpec::movable(2)] {
            let classing = spec.build();
            for n in [HUGE_FRAMES, TREE_FRAMES + 5, 3 * TREE_FRAMES] {
                let ms = LLFree::metadata_size(&classing, n);
                let sizes = [ms.local, ms.trees, ms.lower];
                // one arena, large enough for three buffers with slack
                let arena = GuardBuf::new(2 * (sizes[0] + sizes[1] + sizes[2]) + 4096, false);
                let ptr = arena.ptr as usize;
                // good layout: consecutive, 64 aligned
                let good = [ptr, ptr + sizes[0].next_multiple_of(64) + 64, ptr + (sizes[0] + sizes[1]).next_multiple_of(64) + 256];
                let mk = |starts: [usize; 3], lens: [usize; 3]| -> Result<llfree::Result<()>, String> {
                    let meta = unsafe {
                        MetaData {
                            local: std::slice::from_raw_parts_mut(starts[0] as *mut u8, lens[0]),
                            trees: std::slice::from_raw_parts_mut(starts[1] as *mut u8, lens[1]),
                            lower: std::slice::from_raw_parts_mut(starts[2] as *mut u8, lens[2]),
                        }
                    };
                    crate::common::catch(|| LLFree::new(n, Init::FreeAll, &classing, meta).map(|_| ()))
                };
                let mut expect_init_err = |what: String, starts: [usize; 3], lens: [usize; 3]| {
                    ev += 1;
                    if announce {
                        // announced before the call: an abort inside the call is attributed to it
                        println!("CASE {} frames={n}: {what}", spec.name);
                        use std::io::Write;
                        let _ = std::io::stdout().flush();
                    }
                    let r = mk(starts, lens);
                    if !matches!(r, Ok(Err(Error::Initialization))) {
                        col.lock().unwrap().add(
                            Violation::new(
                                "C08",
                                "construction with bad metadata buffers did not return an initialization error",
                                format!("{} frames={n}: {what}: {:?}", spec.name, r),
                            ),
                            || json!({"engine": "dom", "check": "C08-meta", "frames": n, "classing": spec.json(), "what": what}),
                        );
                    }
                };
                // sanity: the good layout works
                if !matches!(mk(good, sizes), Ok(Ok(()))) {
                    panic!("MACHINERY: good metadata layout rejected");
                }
                for b in 0..3 {
                    if sizes[b] > 0 {
                        let mut lens = sizes;
                        lens[b] -= 1;
                        expect_init_err(format!("buffer {b} one byte short"), good, lens);
                    }
                    for shift in (1..64).step_by(if thorough { 1 } else { 7 }) {
                        let mut starts = good;
                        starts[b] += shift;
                        expect_init_err(format!("buffer {b} shifted by {shift} bytes"), starts, sizes);
                    }
                    for o in 0..3 {
                        if o == b || sizes[b] == 0 || sizes[o] == 0 {
                            continue;
                        }
                        // b overlaps o: by one aligned chunk at o's end, fully, nested
                        let mut starts = good;
                        starts[b] = (good[o] + sizes[o] - 1) & !63;
                        expect_init_err(format!("buffer {b} overlaps the end of buffer {o}"), starts, sizes);
                        let mut starts = good;
                        starts[b] = good[o];
                        expect_init_err(format!("buffer {b} starts at buffer {o}"), starts, sizes);
                        if sizes[o] > 128 {
                            let mut starts = good;
                            let mut lens = sizes;
                            // nested: o is enlarged so that b lies strictly inside it
                            starts[o] = good[b].saturating_sub(64) & !63;
                            lens[o] = sizes[b] + sizes[o] + 256;
                            expect_init_err(format!("buffer {b} nested inside buffer {o}"), starts, lens);
                        }
                    }
                }
            }
        }
    ev
}
