//! Per-property check definitions (which engine, which space, which oracle).

use std::path::Path;
use std::time::Instant;

use llfree::{HUGE_FRAMES, TREE_FRAMES};
const HUGE_ORDER_C: usize = llfree::HUGE_ORDER;
use serde_json::{Map, Value, json};

use crate::common::{ClassingSpec, Config, InitMode, PolicyKind};
use crate::model::Profile;
use crate::report::{Outcome, finish};
use crate::seq::{Probes, SeqParams, SeqStats, explore_all};

pub const SC_ASSUMPTION: &str = "interleavings are sequentially consistent at single-atomic-operation granularity (the code's Acquire/Release orderings are not modelled)";
pub const HOOK_ASSUMPTION: &str = "every shared access goes through llfree::atomic::Atom (hooked by feature `verif`); the bounds monitor checks each hooked address lies in one of the three buffers";

fn classings_std() -> Vec<ClassingSpec> {
    vec![
        ClassingSpec::simple(1),
        ClassingSpec::simple(2),
        ClassingSpec::movable(1),
        ClassingSpec::zeroed([1, 1, 1], 1),
    ]
}

fn classings_zero_slot() -> Vec<ClassingSpec> {
    vec![
        ClassingSpec::custom("zs[(0,0),(1,1)]d1", &[(0, 0), (1, 1)], 1, PolicyKind::Simple),
        ClassingSpec::custom("zs[(0,1),(1,0)]d1", &[(0, 1), (1, 0)], 1, PolicyKind::Simple),
        ClassingSpec::custom("zs[(0,0),(1,1)]d0", &[(0, 0), (1, 1)], 0, PolicyKind::Simple),
        ClassingSpec::custom("zs[(0,1),(1,0)]d0", &[(0, 1), (1, 0)], 0, PolicyKind::Simple),
        ClassingSpec::custom("zs[(0,0)]d0", &[(0, 0)], 0, PolicyKind::Simple),
    ]
}

fn classing_invalid() -> ClassingSpec {
    ClassingSpec::custom(
        "invalid-pairs[(0,1),(1,1),(2,1)]d1",
        &[(0, 1), (1, 1), (2, 1)],
        1,
        PolicyKind::InvalidPairs,
    )
}

fn frames_std() -> Vec<usize> {
    let mut v = vec![
        HUGE_FRAMES - 1,
        HUGE_FRAMES,
        TREE_FRAMES - 1,
        TREE_FRAMES,
        TREE_FRAMES + HUGE_FRAMES + 3,
        2 * TREE_FRAMES,
        3 * TREE_FRAMES + 1,
        4 * TREE_FRAMES,
    ];
    v.sort();
    v.dedup();
    v
}

fn configs(frames: &[usize], classings: &[ClassingSpec], inits: &[InitMode]) -> Vec<Config> {
    let mut out = vec![];
    for &f in frames {
        // 16K geometry: trees are 4x larger; allocators above 2 trees are left to the
        // other geometries (state size and per-frame oracles grow with the frame count)
        if llfree::HUGE_ORDER > 9 && f > 2 * TREE_FRAMES + HUGE_FRAMES {
            continue;
        }
        for c in classings {
            for &i in inits {
                out.push(Config::new(f, c.clone(), i));
            }
        }
    }
    out
}

const BOTH: [InitMode; 2] = [InitMode::FreeAll, InitMode::AllocAll];

fn seq_coverage(stats: &SeqStats, params: &SeqParams, extra: Value) -> Map<String, Value> {
    let mut m = Map::new();
    m.insert("engine".into(), json!("SEQ: explicit-state BFS over the real allocator (state = bytes of the 3 metadata buffers + reference model)"));
    m.insert("states".into(), json!(stats.states));
    m.insert("transitions".into(), json!(stats.transitions));
    m.insert(
        "traces_validated_against_impl".into(),
        json!(stats.transitions),
    );
    m.insert("configurations".into(), json!(stats.configs));
    m.insert("depth_bound".into(), json!(params.depth));
    m.insert(
        "depth_completed_all_configs".into(),
        json!(stats.depth_completed),
    );
    m.insert("configs_capped".into(), json!(stats.capped));
    m.insert("exhaustive".into(), json!(stats.capped == 0));
    m.insert("alphabet_profile".into(), json!(params.profile.name));
    m.insert("outcomes_by_op_kind".into(), json!(stats.outcomes));
    m.insert("probe_evaluations".into(), json!(stats.probe_evals));
    m.insert("panicking_transitions".into(), json!(stats.panics));
    if stats.crash_points > 0 {
        m.insert("crash_points".into(), json!(stats.crash_points));
        m.insert(
            "distinct_crash_images_recovered".into(),
            json!(stats.crash_distinct),
        );
    }
    let samples = if stats.samples.is_empty() {
        vec![json!("(initial states only)")]
    } else {
        stats.samples.clone()
    };
    m.insert("samples".into(), json!(samples));
    let mut pc = stats.per_config.clone();
    pc.truncate(400);
    m.insert("per_config".into(), json!(pc));
    if let Some(o) = extra.as_object() {
        for (k, v) in o {
            m.insert(k.clone(), v.clone());
        }
    }
    m
}

fn run_seq(
    prop: &str,
    tier: &str,
    cfgs: Vec<Config>,
    params: SeqParams,
    assumptions: Vec<String>,
    out: Option<&Path>,
) -> i32 {
    run_seq_with(prop, tier, cfgs, params, assumptions, out, |_| json!({}))
}

#[allow(clippy::too_many_arguments)]
fn run_seq_with(
    prop: &str,
    tier: &str,
    cfgs: Vec<Config>,
    params: SeqParams,
    assumptions: Vec<String>,
    out: Option<&Path>,
    extra: impl FnOnce(&mut crate::report::Collector) -> Value,
) -> i32 {
    let t0 = Instant::now();
    let (stats, mut col) = explore_all(&cfgs, &params);
    let mut extra = extra(&mut col);
    if let Some(mc) = macro_part(prop, tier, &params.probes, &mut col)
        && let (Some(e), Some(m)) = (extra.as_object_mut(), mc.as_object())
    {
        for (k, v) in m {
            e.insert(k.clone(), v.clone());
        }
    }
    let coverage = seq_coverage(&stats, &params, extra);
    eprintln!(
        "[{prop}] configs={} states={} transitions={} depth={} capped={} panics={} secs={:.1}",
        stats.configs,
        stats.states,
        stats.transitions,
        stats.depth_completed,
        stats.capped,
        stats.panics,
        t0.elapsed().as_secs_f64()
    );
    finish(
        Outcome {
            prop: prop.to_string(),
            tier: tier.to_string(),
            level: "model_checking",
            coverage,
            assumptions,
            collector: col,
            wall_s: t0.elapsed().as_secs_f64(),
        },
        out,
    )
}

fn ilv_coverage(st: &crate::ilv::IlvStats, opts: &crate::ilv::IlvOpts) -> Map<String, Value> {
    let mut m = Map::new();
    m.insert("engine".into(), json!("ILV: CHESS-style preemption-bounded DFS by re-execution over the real allocator; threads are coroutines, a scheduling point before every atomic operation"));
    m.insert("scenarios".into(), json!(st.scenarios));
    m.insert("executions".into(), json!(st.executions));
    m.insert("states".into(), json!(st.sched_points.max(1)));
    m.insert("transitions".into(), json!(st.steps.max(1)));
    m.insert("traces_validated_against_impl".into(), json!(st.executions));
    m.insert("scheduling_points".into(), json!(st.sched_points));
    m.insert(
        "preemption_bound".into(),
        if opts.bound == usize::MAX { json!("unbounded") } else { json!(opts.bound) },
    );
    m.insert("state_cache".into(), json!(opts.cache));
    m.insert("distinct_cache_states".into(), json!(st.cache_states));
    m.insert("pruned_revisits".into(), json!(st.pruned));
    m.insert("scenarios_capped".into(), json!(st.capped));
    m.insert("exhaustive".into(), json!(st.capped == 0));
    m.insert("distinct_final_outcomes_total".into(), json!(st.outcomes));
    m.insert("scenarios_with_single_outcome".into(), json!(st.single_outcome));
    m.insert("scenarios_without_conflicting_access".into(), json!(st.vacuous));
    m.insert("executions_with_conflicting_access".into(), json!(st.conflict_execs));
    m.insert("max_uninterrupted_steps_of_a_call".into(), json!(st.max_solo_steps));
    m.insert("executions_ending_in_panic".into(), json!(st.panicked_execs));
    m.insert("determinism_checks".into(), json!(st.determinism_checks));
    if st.crash_points > 0 {
        m.insert("crash_points".into(), json!(st.crash_points));
        m.insert("distinct_crash_images_recovered".into(), json!(st.crash_distinct));
    }
    if st.c10_probes > 0 {
        m.insert("c10_probes".into(), json!(st.c10_probes));
    }
    let samples = if st.samples.is_empty() { vec![json!("none")] } else { st.samples.clone() };
    m.insert("samples".into(), json!(samples));
    let mut ps = st.per_scenario.clone();
    ps.truncate(1500);
    m.insert("per_scenario".into(), json!(ps));
    m
}

fn run_ilv(
    prop: &str,
    tier: &str,
    scs: Vec<crate::ilv::Scenario>,
    opts: crate::ilv::IlvOpts,
    out: Option<&Path>,
) -> i32 {
    let t0 = Instant::now();
    let (st, col) = crate::ilv::explore_all(&scs, &opts);
    eprintln!(
        "[{prop}] scenarios={} executions={} steps={} capped={} vacuous={} panicked={} pruned={} secs={:.1}",
        st.scenarios, st.executions, st.steps, st.capped, st.vacuous, st.panicked_execs, st.pruned,
        t0.elapsed().as_secs_f64()
    );
    let coverage = ilv_coverage(&st, &opts);
    finish(
        Outcome {
            prop: prop.to_string(),
            tier: tier.to_string(),
            level: "model_checking",
            coverage,
            assumptions: vec![
                SC_ASSUMPTION.to_string(),
                HOOK_ASSUMPTION.to_string(),
                "bounded: 2-3 threads, 1-2 calls each, the generated scenario families of /verif/harness/src/scenarios.rs, preemption bound as stated".to_string(),
            ],
            collector: col,
            wall_s: t0.elapsed().as_secs_f64(),
        },
        out,
    )
}

/// Run a SEQ part and an ILV part for one property and merge the evidence
#[allow(clippy::too_many_arguments)]
fn run_seq_ilv(
    prop: &str,
    tier: &str,
    cfgs: Vec<Config>,
    params: SeqParams,
    scs: Vec<crate::ilv::Scenario>,
    opts: crate::ilv::IlvOpts,
    mut assumptions: Vec<String>,
    out: Option<&Path>,
) -> i32 {
    let t0 = Instant::now();
    let (sst, mut col) = explore_all(&cfgs, &params);
    let macro_cov = macro_part(prop, tier, &params.probes, &mut col);
    let nvm_cov = (prop == "C05").then(|| {
        let (e, h) = crate::c17::c05_nvm_part(tier == "thorough", &mut col);
        json!({"rule": "persistent wrapper (NvmAlloc): create, every history up to depth 1-3 over a fixed alphabet, drop, recover from the region alone: per-frame status, counts and freeability of every held block equal the model; zone sizes: 3 small ones and every size up to 140000 (600000 thorough) frames at which the number of metadata pages changes, +-1",
            "evaluations": e, "histories": h})
    });
    let t1 = t0.elapsed().as_secs_f64();
    let (ist, icol) = crate::ilv::explore_all(&scs, &opts);
    col.merge(icol);
    eprintln!(
        "[{prop}] SEQ configs={} states={} transitions={} depth={} capped={} ({t1:.1}s) | ILV scenarios={} executions={} steps={} capped={} panicked={} ({:.1}s)",
        sst.configs, sst.states, sst.transitions, sst.depth_completed, sst.capped,
        ist.scenarios, ist.executions, ist.steps, ist.capped, ist.panicked_execs,
        t0.elapsed().as_secs_f64() - t1
    );
    let seqc = seq_coverage(&sst, &params, json!({}));
    let ilvc = ilv_coverage(&ist, &opts);
    let mut m = Map::new();
    m.insert("states".into(), json!(sst.states + ist.sched_points));
    m.insert("transitions".into(), json!(sst.transitions + ist.steps));
    m.insert(
        "traces_validated_against_impl".into(),
        json!(sst.transitions + ist.executions),
    );
    m.insert("exhaustive".into(), json!(sst.capped == 0 && ist.capped == 0));
    let mut samples = sst.samples.clone();
    samples.extend(ist.samples.iter().take(3).cloned());
    if samples.is_empty() {
        samples.push(json!("none"));
    }
    m.insert("samples".into(), json!(samples));
    m.insert("sequential_part".into(), Value::Object(seqc));
    m.insert("concurrent_part".into(), Value::Object(ilvc));
    if let Some(mc) = macro_cov {
        m.insert("macro_part".into(), mc);
    }
    if let Some(nc) = nvm_cov {
        m.insert("persistent_wrapper_part".into(), nc);
    }
    assumptions.push(SC_ASSUMPTION.to_string());
    assumptions.push(HOOK_ASSUMPTION.to_string());
    finish(
        Outcome {
            prop: prop.to_string(),
            tier: tier.to_string(),
            level: "model_checking",
            coverage: m,
            assumptions,
            collector: col,
            wall_s: t0.elapsed().as_secs_f64(),
        },
        out,
    )
}

/// Properties whose sequential oracles also run on the MACRO search (script.rs)
const MACRO_HOSTS: [&str; 9] = ["C02", "C04", "C07", "C09", "C10", "C13", "C14", "C15", "C21"];

fn macro_part(prop: &str, tier: &str, probes: &Probes, col: &mut crate::report::Collector) -> Option<Value> {
    if !MACRO_HOSTS.contains(&prop) {
        return None;
    }
    let thorough = tier == "thorough";
    let cfgs = crate::script::macro_configs(thorough);
    let p = crate::script::MacroParams {
        prop: prop.to_string(),
        depth: std::env::var("VERIF_MACRO_DEPTH").ok().and_then(|s| s.parse().ok()).unwrap_or(if thorough { 4 } else { 3 }),
        rich: true,
        policy_alphabet: false,
        probes: probes.clone(),
        max_secs: if thorough { 6.0 } else { 5.0 },
    };
    let t0 = Instant::now();
    let (st, c) = crate::script::macro_all(&cfgs, &p);
    col.merge(c);
    eprintln!(
        "[{prop}] MACRO configs={} sequences={} states={} calls={} longest={} capped={} ({:.1}s)",
        st.configs, st.sequences, st.states, st.calls, st.max_history_calls, st.capped, t0.elapsed().as_secs_f64()
    );
    let mut cov = crate::script::macro_coverage(&st);
    // class / policy interplay: allocation-centred alphabet, 3 classes, 2-3 trees, deeper
    let pp = crate::script::MacroParams {
        prop: prop.to_string(),
        depth: if thorough { 6 } else { 5 },
        rich: false,
        policy_alphabet: true,
        probes: probes.clone(),
        max_secs: if thorough { 4.0 } else { 4.0 },
    };
    let t1 = Instant::now();
    let (pst, c) = crate::script::macro_all(&crate::script::policy_configs(thorough), &pp);
    col.merge(c);
    eprintln!(
        "[{prop}] MACRO(policy) configs={} sequences={} states={} calls={} capped={} ({:.1}s)",
        pst.configs, pst.sequences, pst.states, pst.calls, pst.capped, t1.elapsed().as_secs_f64()
    );
    if let Some(m) = cov.as_object_mut() {
        m.insert("policy_family".into(), json!({"rule": "MACRO search with the allocation-centred alphabet (one allocation of order 0 / huge / tree order per class with and without slot, exhaust at huge order per class, free all, free every other, drain) on 2-3 tree allocators with 3-class policies",
            "configs": pst.configs, "sequences": pst.sequences, "states": pst.states, "basic_calls": pst.calls,
            "depth": pst.depth, "jobs_capped": pst.capped}));
    }
    Some(cov)
}

fn ilv_opts(thorough: bool) -> crate::ilv::IlvOpts {
    let bound = std::env::var("VERIF_ILV_BOUND")
        .ok()
        .and_then(|s| if s == "inf" { Some(usize::MAX) } else { s.parse().ok() })
        .unwrap_or(4);
    crate::ilv::IlvOpts {
        bound,
        crash: false,
        c10: false,
        cache: true,
        bound_two_calls: if thorough { Some(usize::MAX) } else { None },
        epilogue: false,
        max_secs: if thorough { 300.0 } else { 20.0 },
        max_execs: if thorough { 50_000_000 } else { 2_000_000 },
    }
}

fn small_geometry() -> bool {
    TREE_FRAMES <= 1024
}

pub fn run(prop: &str, tier: &str, out: Option<&Path>) -> i32 {
    let thorough = tier == "thorough";
    crate::oracle::set_host_prop(prop);
    let seq_assume = vec![
        "bounded: histories up to the stated depth over the stated alphabet from the stated initial states".to_string(),
        "reference model: /verif/harness/src/model.rs (frame-ownership model)".to_string(),
    ];
    match prop {
        // ---------------- SEQ host runs
        "C02" | "C04" | "C13" | "C14" => {
            let mut cl = classings_std();
            cl.extend(classings_zero_slot().into_iter().take(2));
            if prop == "C13" {
                cl.push(classing_invalid());
            }
            let cfgs = if thorough {
                configs(&frames_std(), &cl, &BOTH)
            } else {
                // quick: the two largest frame counts only with two classings
                let fs = frames_std();
                let (small, big) = fs.split_at(fs.len() - 2);
                let mut c = configs(small, &cl, &BOTH);
                c.extend(configs(big, &[ClassingSpec::simple(1), ClassingSpec::movable(1)], &BOTH));
                if prop == "C13" {
                    c.retain(|c| c.frames != HUGE_FRAMES - 1 && c.frames != TREE_FRAMES - 1);
                }
                c
            };
            let depth = if thorough {
                if small_geometry() { 5 } else { 4 }
            } else if llfree::TREE_HUGE > 4 {
                // quick tier, larger geometry: shallower
                2
            } else {
                3
            };
            let params = SeqParams {
                prop: prop.to_string(),
                profile: Profile::c02(),
                depth,
                max_states: if thorough { 3_000_000 } else { 400_000 },
                probes: Probes {
                    blocks: prop == "C04",
                    ..Default::default()
                },
                max_secs: if thorough { 90.0 } else { 40.0 },
            };
            if prop == "C02" {
                run_seq_with(prop, tier, cfgs, params, seq_assume, out, |col| {
                    let (h, c) = crate::script::cursor_family(col);
                    json!({"scripted_histories": h, "scripted_calls": c,
                        "scripted_rule": "cursor sweep (harness/src/script.rs): slot cursor moved to every huge frame (first/last row) of its reserved tree by a targeted allocation, tree freed again (through the slot / globally / partly), then one allocation of every order with and without slot; every call judged by the reference model"})
                })
            } else if prop == "C14" {
                run_seq(prop, tier, cfgs, params, seq_assume, out)
            } else {
                // C04, C13: also at the end of / inside every explored interleaving
                let scs = crate::scenarios::generate(thorough as usize);
                run_seq_ilv(prop, tier, cfgs, params, scs, ilv_opts(thorough), seq_assume, out)
            }
        }
        "C18" => {
            let mut cl = classings_std();
            cl.extend(classings_zero_slot());
            let mut frames = vec![
                1,
                63,
                64,
                HUGE_FRAMES - 1,
                HUGE_FRAMES + 1,
                TREE_FRAMES - 1,
                TREE_FRAMES,
                TREE_FRAMES + 1,
                TREE_FRAMES + HUGE_FRAMES,
                2 * TREE_FRAMES + 2 * HUGE_FRAMES + 5,
                4 * TREE_FRAMES,
            ];
            frames.sort();
            frames.dedup();
            let cfgs = configs(&frames, &cl, &BOTH);
            let t0 = Instant::now();
            let mut total = SeqStats::default();
            let mut col = crate::report::Collector::default();
            let mut params = SeqParams {
                prop: prop.to_string(),
                profile: Profile::c09(),
                depth: if thorough { 3 } else { 2 },
                max_states: if thorough { 300_000 } else { 40_000 },
                probes: Probes {
                    bounds: true,
                    ..Default::default()
                },
                max_secs: if thorough { 120.0 } else { 15.0 },
            };
            for flush_start in [false, true] {
                params.probes.flush_start = flush_start;
                let (st, c) = explore_all(&cfgs, &params);
                total.merge(st);
                col.merge(c);
            }
            // allocators whose partial last tree starts a new cache line of the tree array
            // (16 entries per line) or of the huge-entry tables: every single call (depth 2 in
            // the thorough tier) from both initial states, both placements
            let big = [
                8 * TREE_FRAMES + HUGE_FRAMES + 1,
                16 * TREE_FRAMES + 1,
                16 * TREE_FRAMES + HUGE_FRAMES + 1,
                32 * TREE_FRAMES + 7,
            ];
            let big_cl = [
                ClassingSpec::simple(1),
                ClassingSpec::custom("zs[(0,1),(1,0)]d0", &[(0, 1), (1, 0)], 0, PolicyKind::Simple),
            ];
            let big_cfgs = configs(&big, &big_cl, &BOTH);
            let mut big_params = params.clone();
            big_params.depth = if thorough { 2 } else { 1 };
            big_params.max_secs = if thorough { 60.0 } else { 10.0 };
            for flush_start in [false, true] {
                big_params.probes.flush_start = flush_start;
                let (st, c) = explore_all(&big_cfgs, &big_params);
                total.merge(st);
                col.merge(c);
            }
            // construction modes incl. frames = 0 / empty buffers, both placements
            let mut f0 = frames.clone();
            f0.insert(0, 0);
            f0.extend(big.iter().copied().filter(|&f| llfree::HUGE_ORDER <= 9 || f <= 2 * TREE_FRAMES));
            let (builds, calls) = crate::extras::c09_constructions(&f0, &cl, &mut col);
            // interleavings with the byte-exact bounds monitor
            let scs = crate::scenarios::generate(thorough as usize);
            let mut opts = ilv_opts(thorough);
            opts.bound = if thorough { 2 } else { 1 };
            let (ist, icol) = crate::ilv::explore_all(&scs, &opts);
            col.merge(icol);
            crate::guard::clear_inflight();
            let mut m = seq_coverage(&total, &params, json!({}));
            m.insert("states".into(), json!(total.states + ist.sched_points));
            m.insert("transitions".into(), json!(total.transitions + ist.steps));
            m.insert("traces_validated_against_impl".into(), json!(total.transitions + ist.executions));
            m.insert("hooked_atomic_accesses_checked_sequential".into(), json!(total.hooked_steps));
            m.insert("hooked_atomic_accesses_checked_concurrent".into(), json!(ist.steps));
            m.insert("construction_modes".into(), json!(builds));
            m.insert("calls_after_construction".into(), json!(calls));
            m.insert("interleaving_executions".into(), json!(ist.executions));
            m.insert("buffer_placements".into(), json!(["end flush with trailing PROT_NONE page", "start flush with leading PROT_NONE page"]));
            eprintln!(
                "[C18] seq states={} transitions={} hooked={} | constructions={} | ilv executions={} secs={:.1}",
                total.states, total.transitions, total.hooked_steps, builds, ist.executions, t0.elapsed().as_secs_f64()
            );
            finish(
                Outcome {
                    prop: prop.to_string(),
                    tier: tier.to_string(),
                    level: "model_checking",
                    coverage: m,
                    assumptions: vec![
                        "monitors: PROT_NONE guard pages directly before/after each exactly-sized metadata buffer (a SIGSEGV inside a guard range is the verdict) and a byte-exact bounds check of every hooked atomic access; AddressSanitizer is not used".into(),
                        "interleavings run on one OS thread: undefined behaviour from data races on non-atomic memory is not observable; all shared accesses are Atom operations".into(),
                        HOOK_ASSUMPTION.into(),
                    ],
                    collector: col,
                    wall_s: t0.elapsed().as_secs_f64(),
                },
                out,
            )
        }
        "C23" => crate::dom::c23(tier, out),
        "C16" => crate::dom::c16(tier, out),
        "C06" => crate::dom::c06(tier, out),
        "C11" => crate::dom::c11(tier, out),
        "C12" => crate::dom::c12(tier, out),
        "C08" => crate::dom::c08(tier, out),
        "C17" => crate::c17::c17(tier, out),
        "C07" => {
            let mut cl = classings_std();
            cl.push(classings_zero_slot()[0].clone());
            let frames = if thorough {
                frames_std()
            } else {
                vec![HUGE_FRAMES, TREE_FRAMES + HUGE_FRAMES + 3, 2 * TREE_FRAMES, 3 * TREE_FRAMES + 1]
            };
            let cfgs = configs(&frames, &cl, &BOTH);
            let params = SeqParams {
                prop: prop.to_string(),
                profile: Profile::c02(),
                depth: if thorough { 3 } else { 2 },
                max_states: if thorough { 100_000 } else { 20_000 },
                probes: Probes {
                    c07: true,
                    c07_depth2: thorough,
                    ..Default::default()
                },
                max_secs: if thorough { 200.0 } else { 30.0 },
            };
            run_seq(prop, tier, cfgs, params, seq_assume, out)
        }
        "C10" => {
            let cl = vec![
                ClassingSpec::simple(1),
                ClassingSpec::simple(2),
                ClassingSpec::simple(3),
                ClassingSpec::movable(1),
                ClassingSpec::movable(2),
                ClassingSpec::zeroed([1, 1, 1], 1),
                ClassingSpec::zeroed([2, 1, 3], 1),
            ];
            let frames = if thorough {
                frames_std()
            } else {
                vec![TREE_FRAMES, TREE_FRAMES + HUGE_FRAMES + 3, 2 * TREE_FRAMES, 3 * TREE_FRAMES + 1]
            };
            let cfgs = configs(&frames, &cl, &BOTH);
            let mut profile = Profile::c15();
            profile.part_frees = true;
            profile.max_held = 3;
            profile.orders = vec![0, 6, 7, HUGE_ORDER_C, llfree::TREE_ORDER];
            let params = SeqParams {
                prop: prop.to_string(),
                profile,
                depth: if thorough { 3 } else { 2 },
                max_states: if thorough { 60_000 } else { 6_000 },
                probes: Probes {
                    c10: true,
                    ..Default::default()
                },
                max_secs: if thorough { 200.0 } else { 30.0 },
            };
            let scs = crate::scenarios::generate(thorough as usize);
            let mut opts = ilv_opts(thorough);
            opts.c10 = true;
            opts.bound = if thorough { 2 } else { 1 };
            run_seq_ilv(prop, tier, cfgs, params, scs, opts, seq_assume, out)
        }
        "C15" => {
            let cl = vec![
                ClassingSpec::simple(1),
                ClassingSpec::simple(2),
                ClassingSpec::movable(1),
                ClassingSpec::zeroed([1, 1, 1], 1),
            ];
            let frames = if thorough {
                vec![2 * TREE_FRAMES, 2 * TREE_FRAMES + HUGE_FRAMES + 3, 3 * TREE_FRAMES]
            } else {
                vec![2 * TREE_FRAMES, 2 * TREE_FRAMES + HUGE_FRAMES + 3]
            };
            let cfgs = configs(&frames, &cl, &[InitMode::FreeAll]);
            let params = SeqParams {
                prop: prop.to_string(),
                profile: Profile::c15(),
                depth: if thorough { 5 } else { 4 },
                max_states: if thorough { 1_500_000 } else { 150_000 },
                probes: Probes {
                    c10: false,
                    c15_fill: true,
                    ..Default::default()
                },
                max_secs: if thorough { 300.0 } else { 40.0 },
            };
            run_seq_with(prop, tier, cfgs, params, seq_assume, out, |col| {
                let (h, c) = crate::script::change_by_search_family(col);
                json!({"scripted_histories": h, "scripted_calls": c,
                    "scripted_rule": "tree changes by search on allocators with 9/12/17/33 trees (harness/src/script.rs): for every tree t, t is made the only unreserved entirely free tree; offline by search, allocations of every kind, online by search, allocation from t; every call judged by the reference model and the tree-change oracle"})
            })
        }
        "C05" => {
            let mut frames = vec![
                HUGE_FRAMES,
                TREE_FRAMES,
                TREE_FRAMES + HUGE_FRAMES,
                TREE_FRAMES + 2 * HUGE_FRAMES + 7,
                2 * TREE_FRAMES + HUGE_FRAMES / 2,
                2 * TREE_FRAMES,
            ];
            if thorough {
                frames.extend([HUGE_FRAMES - 1, TREE_FRAMES - 1, 3 * TREE_FRAMES + 1, 4 * TREE_FRAMES]);
                for k in 1..llfree::TREE_HUGE {
                    frames.push(2 * TREE_FRAMES + k * HUGE_FRAMES);
                }
            }
            frames.sort();
            frames.dedup();
            let cl = if thorough {
                classings_std()
            } else {
                vec![ClassingSpec::simple(1), ClassingSpec::movable(1)]
            };
            let cfgs = configs(&frames, &cl, &BOTH);
            let params = SeqParams {
                prop: prop.to_string(),
                profile: Profile::c02(),
                depth: if thorough { 3 } else { 2 },
                max_states: if thorough { 400_000 } else { 60_000 },
                probes: Probes {
                    c05: true,
                    ..Default::default()
                },
                max_secs: if thorough { 200.0 } else { 25.0 },
            };
            let scs = crate::scenarios::generate(thorough as usize);
            let mut opts = ilv_opts(thorough);
            opts.crash = true;
            opts.bound = if thorough { 2 } else { 1 };
            if thorough && !small_geometry() {
                // recovery of every crash image costs O(frames): on the large geometries the
                // bound-2 crash exploration of a few scenarios ran for more than an hour
                opts.bound = 1;
                opts.max_secs = 60.0;
            }
            let mut assume = seq_assume.clone();
            assume.push("crash model: the persistent image is a program-order prefix of the executed atomic writes to the lower buffer (no reordering, no torn words); crashes inside construction and double crashes are out of scope".into());
            run_seq_ilv(prop, tier, cfgs, params, scs, opts, assume, out)
        }
        "C21" => {
            // sequential part: every call of a bounded search runs under a step budget
            let mut cl = classings_std();
            cl.push(classings_zero_slot()[0].clone());
            let frames = vec![HUGE_FRAMES + 1, TREE_FRAMES, TREE_FRAMES + HUGE_FRAMES + 3, 2 * TREE_FRAMES];
            let cfgs = configs(&frames, &cl, &BOTH);
            let params = SeqParams {
                prop: prop.to_string(),
                profile: Profile::c09(),
                depth: if thorough { 3 } else { 2 },
                max_states: if thorough { 300_000 } else { 50_000 },
                probes: Probes::default(),
                max_secs: if thorough { 120.0 } else { 20.0 },
            };
            let scs = crate::scenarios::generate(thorough as usize);
            run_seq_ilv(prop, tier, cfgs, params, scs, ilv_opts(thorough), seq_assume, out)
        }
        "C01" | "C03" => {
            let scs = crate::scenarios::generate(thorough as usize);
            let mut opts = ilv_opts(thorough);
            opts.epilogue = prop == "C01";
            run_ilv(prop, tier, scs, opts, out)
        }
        "C09" => {
            let mut cl = classings_std();
            cl.extend(classings_zero_slot());
            cl.push(ClassingSpec::simple(3));
            cl.push(ClassingSpec::movable(2));
            let frames = vec![
                1,
                63,
                HUGE_FRAMES - 1,
                HUGE_FRAMES,
                HUGE_FRAMES + 1,
                TREE_FRAMES - 1,
                TREE_FRAMES,
                TREE_FRAMES + 1,
                TREE_FRAMES + HUGE_FRAMES,
                2 * TREE_FRAMES + 2 * HUGE_FRAMES + 5,
                4 * TREE_FRAMES,
            ];
            let mut frames = frames;
            frames.sort();
            frames.dedup();
            let cfgs = configs(&frames, &cl, &BOTH);
            let params = SeqParams {
                prop: prop.to_string(),
                profile: Profile::c09(),
                depth: match (thorough, small_geometry()) {
                    (true, true) => 5,
                    (true, false) => 4,
                    (false, true) => 4,
                    (false, false) => 2,
                },
                max_states: if thorough { 3_000_000 } else { 250_000 },
                probes: Probes::default(),
                max_secs: if thorough { 40.0 } else { 25.0 },
            };
            let mut f0 = frames.clone();
            f0.insert(0, 0);
            let mut cfgs = cfgs;
            let mut params = params;
            if !thorough && small_geometry() {
                // quick, small geometry: depth 4 only for allocators of at most 2 trees
                cfgs.retain(|c| c.frames <= 2 * TREE_FRAMES);
                params.max_secs = 6.0;
            }
            run_seq_with(prop, tier, cfgs, params, seq_assume, out, |col| {
                let (builds, calls) = crate::extras::c09_constructions(&f0, &cl, col);
                let (sh, sc) = crate::script::cursor_family(col);
                json!({"construction_modes_enumerated": builds, "calls_after_construction": calls,
                    "scripted_histories": sh, "scripted_calls": sc,
                    "scripted_rule": "cursor sweep (harness/src/script.rs): 5-6 call histories that move a slot's row cursor to every huge frame of its reserved tree, free the tree again and allocate every order with and without slot",
                    "construction_rule": "every frame count of the list (and 0) x classing x {FreeAll, AllocAll, Recover over zero/ones/free/alloc bytes, None}, then one call of every kind"})
            })
        }
        _ => {
            eprintln!("unknown property {prop}");
            2
        }
    }
}

pub fn replay(path: &str) -> i32 {
    let s = match std::fs::read_to_string(path) {
        Ok(s) => s,
        Err(e) => {
            eprintln!("cannot read {path}: {e}");
            return 2;
        }
    };
    let v: Value = serde_json::from_str(&s).expect("replay file is not JSON");
    let engine = v["engine"].as_str().unwrap_or("");
    let run = || -> Result<Vec<String>, String> {
        match engine {
            "seq" => crate::seq::replay(&v),
            "ilv" => crate::ilv::replay(&v),
            e => Err(format!("unknown engine {e}")),
        }
    };
    let a = run();
    let b = run();
    match (a, b) {
        (Ok(a), Ok(b)) => {
            if a != b {
                eprintln!("replay diverged between two runs (machinery error)");
                return 2;
            }
            for l in &a {
                println!("{l}");
            }
            let violated = a.iter().any(|l| l.contains("violates") || l.contains("PANIC"));
            if violated {
                println!(
                    "VIOLATION property={} replay={path}",
                    v["property"].as_str().unwrap_or("?")
                );
                1
            } else {
                println!("no violation reproduced");
                0
            }
        }
        (Err(e), _) | (_, Err(e)) => {
            eprintln!("replay error: {e}");
            2
        }
    }
}
