//! ILV: interleaving explorer (stub, replaced below)
use crate::hook::Event;
pub fn yield_point(_ev: Event) {}
