//! ILV: preemption-bounded exhaustive interleaving explorer over the real allocator
//! (DESIGN §4.1). Threads are stackful coroutines; the `verif` hook yields to the
//! scheduler before every atomic operation.

use std::cell::RefCell;
use std::collections::{BTreeMap, HashMap, HashSet};
use std::time::Instant;

use generator::{Generator, Gn};
use llfree::verif::Kind;
use serde_json::{Value, json};

use crate::common::{Config, Op, Res, Sut, TreeOp, hash128, panic_signature};
use crate::crash::Recoverer;
use crate::hook::{self, Ctx, Event, Mode, mix64};
use crate::model::Model;
use crate::oracle::{self, ClassTable, Violation};
use crate::report::Collector;

/// Step budget for a call running without interference (C21)
pub const SOLO_BOUND: u64 = 5_000;
/// Hard horizon per execution (livelock detector)
pub const HORIZON: u64 = 100_000;
const STACK_WORDS: usize = 0x8000;

// ---------------------------------------------------------------------------
// Scenario
// ---------------------------------------------------------------------------

#[derive(Clone, Debug, PartialEq, Eq, Hash)]
pub enum TOp {
    /// A fully resolved call
    Do(Op),
    /// Free (part of) the `nth` block this thread allocated itself in this scenario
    PutOwn {
        nth: usize,
        /// (part index, order) to free only one part
        part: Option<(usize, usize)>,
        local: Option<usize>,
    },
}
impl TOp {
    pub fn short(&self) -> String {
        match self {
            TOp::Do(op) => op.short(),
            TOp::PutOwn { nth, part, local } => format!("put_own(#{nth},{part:?},{local:?})"),
        }
    }
    pub fn json(&self) -> Value {
        match self {
            TOp::Do(op) => json!({"do": op.json()}),
            TOp::PutOwn { nth, part, local } => {
                json!({"put_own": nth, "part": part.map(|p| vec![p.0, p.1]), "local": local})
            }
        }
    }
    pub fn from_json(v: &Value) -> Option<Self> {
        if let Some(d) = v.get("do") {
            return Some(TOp::Do(Op::from_json(d)?));
        }
        let nth = v.get("put_own")?.as_u64()? as usize;
        let part = v["part"]
            .as_array()
            .map(|a| (a[0].as_u64().unwrap() as usize, a[1].as_u64().unwrap() as usize));
        Some(TOp::PutOwn {
            nth,
            part,
            local: v["local"].as_u64().map(|x| x as usize),
        })
    }
}

#[derive(Clone, Debug)]
pub struct Scenario {
    pub name: String,
    pub cfg: Config,
    /// sequential set-up (hook off)
    pub setup: Vec<Op>,
    pub threads: Vec<Vec<TOp>>,
}
impl Scenario {
    pub fn json(&self) -> Value {
        json!({"name": self.name, "config": self.cfg.json(),
            "setup": self.setup.iter().map(|o| o.json()).collect::<Vec<_>>(),
            "threads": self.threads.iter().map(|t| t.iter().map(|o| o.json()).collect::<Vec<_>>()).collect::<Vec<_>>(),
            "text": self.describe()})
    }
    pub fn from_json(v: &Value) -> Option<Self> {
        Some(Self {
            name: v["name"].as_str()?.to_string(),
            cfg: Config::from_json(&v["config"])?,
            setup: v["setup"]
                .as_array()?
                .iter()
                .map(Op::from_json)
                .collect::<Option<Vec<_>>>()?,
            threads: v["threads"]
                .as_array()?
                .iter()
                .map(|t| {
                    t.as_array()?
                        .iter()
                        .map(TOp::from_json)
                        .collect::<Option<Vec<_>>>()
                })
                .collect::<Option<Vec<_>>>()?,
        })
    }
    /// Shape of the concurrent history: op kinds per thread, threads sorted
    pub fn shape(&self) -> String {
        fn kind(t: &TOp) -> String {
            match t {
                TOp::PutOwn { part: None, .. } => "put".into(),
                TOp::PutOwn { .. } => "put-part".into(),
                TOp::Do(op) => match op {
                    Op::Get { target: None, .. } => "get".into(),
                    Op::Get { .. } => "get-at".into(),
                    Op::Put { .. } => "put".into(),
                    Op::Drain => "drain".into(),
                    Op::Change { op: Some(TreeOp::Online), .. } => "change-online".into(),
                    Op::Change { op: Some(TreeOp::Offline), .. } => "change-offline".into(),
                    Op::Change { .. } => "change-class".into(),
                    Op::Validate | Op::Queries => "query".into(),
                },
            }
        }
        let mut ts: Vec<String> = self
            .threads
            .iter()
            .map(|t| t.iter().map(kind).collect::<Vec<_>>().join(";"))
            .collect();
        ts.sort();
        ts.join(" || ")
    }
    pub fn describe(&self) -> String {
        format!(
            "{} [{}] setup=[{}] threads={}",
            self.name,
            self.cfg.describe(),
            self.setup
                .iter()
                .map(|o| o.short())
                .collect::<Vec<_>>()
                .join("; "),
            self.threads
                .iter()
                .map(|t| format!(
                    "[{}]",
                    t.iter().map(|o| o.short()).collect::<Vec<_>>().join("; ")
                ))
                .collect::<Vec<_>>()
                .join(" || ")
        )
    }
}

// ---------------------------------------------------------------------------
// Per-execution state shared between the scheduler and the coroutines
// ---------------------------------------------------------------------------

pub enum Ev {
    Point(Event),
    Done,
}

struct Exec {
    /// model with completed calls applied (frees applied when they return)
    model: Model,
    /// model where frees are applied when they are *called* (C01 held set)
    m_call: Model,
    inflight: Vec<Option<Op>>,
    /// the in-flight free of this thread was already applied to `model` (its frames were reused)
    early: Vec<bool>,
    /// blocks allocated by each thread itself, in allocation order (None: failed get)
    own: Vec<Vec<Option<(usize, usize)>>>,
    /// completed calls per thread
    calls: Vec<Vec<(Op, Res)>>,
    viol: Vec<Violation>,
    panicked: bool,
    /// result hash per thread (state cache)
    res_hash: Vec<u64>,
    /// op index per thread
    op_idx: Vec<usize>,
    /// thread whose call returned during the last resume (resets the solo counter)
    returned: bool,
    quiet: bool,
}

thread_local! {
    static EXEC: RefCell<Option<Exec>> = const { RefCell::new(None) };
    static CLASSES: RefCell<Option<ClassTable>> = const { RefCell::new(None) };
}

fn with_exec<R>(f: impl FnOnce(&mut Exec) -> R) -> R {
    EXEC.with(|e| f(e.borrow_mut().as_mut().expect("no execution")))
}

/// Called by the hook inside a coroutine: suspend before an atomic operation
#[allow(deprecated)]
pub fn yield_point(ev: Event) {
    generator::yield_with(Ev::Point(ev));
}

impl Exec {
    fn on_call(&mut self, t: usize, top: &TOp, cfg: &Config) -> Option<Op> {
        let op = match top {
            TOp::Do(op) => op.clone(),
            TOp::PutOwn { nth, part, local } => {
                let (f, o) = (*self.own[t].get(*nth)?)?;
                let (frame, order) = match part {
                    Some((idx, po)) => (f + idx * (1usize << po), *po),
                    None => (f, o),
                };
                Op::Put {
                    frame,
                    order,
                    class: cfg.classing.natural_class(order),
                    local: *local,
                }
            }
        };
        if self.quiet {
            return Some(op);
        }
        if let Op::Put { frame, order, .. } = &op {
            // the block leaves the held set when its free is called
            if self.m_call.free_ok(*frame, *order) {
                self.m_call.apply_free(*frame, *order);
            } else {
                self.viol.push(Violation::new(
                    "MACHINERY",
                    "scenario frees a block that is not held",
                    op.short(),
                ));
            }
        }
        self.inflight[t] = Some(op.clone());
        self.early[t] = false;
        Some(op)
    }

    fn on_return(&mut self, t: usize, op: &Op, res: Res, cfg: &Config) {
        self.returned = true;
        self.op_idx[t] += 1;
        if self.quiet {
            return;
        }
        self.inflight[t] = None;
        let mut h = self.res_hash[t];
        h = mix64(h, {
            let mut hh = std::collections::hash_map::DefaultHasher::new();
            std::hash::Hash::hash(&res, &mut hh);
            std::hash::Hasher::finish(&hh)
        });
        self.res_hash[t] = h;
        match (&res, op) {
            (Res::Panic(msg), _) => {
                self.panicked = true;
                let sig = panic_signature(msg);
                self.viol.push(Violation::new(
                    "C03",
                    format!("panic: {sig}"),
                    format!("thread {t}: {} panicked: {msg}", op.short()),
                ));
                if msg.contains("Exceeding retries") {
                    self.viol.push(Violation::new(
                        "C21",
                        format!("call gave up waiting for another thread: {sig}"),
                        format!("thread {t}: {} panicked: {msg}", op.short()),
                    ));
                }
            }
            (Res::Got(f, c), Op::Get { order, class, target, .. }) => {
                self.own[t].push(Some((*f, *order)));
                // C01 monitor at the instant the allocation returns
                if let Err(e) = self.m_call.apply_alloc(*f, *order) {
                    self.viol.push(Violation::new(
                        "C01",
                        "allocation returned a block overlapping a held block / misaligned / out of range",
                        format!("thread {t}: {} -> {f}: {e}", op.short()),
                    ));
                    self.viol.push(Violation::new(
                        "C03",
                        "successful allocation returned a block the ownership model forbids",
                        format!("thread {t}: {} -> {f}: {e}", op.short()),
                    ));
                }
                if let Some(tg) = target
                    && tg != f
                {
                    self.viol.push(Violation::new(
                        "C01",
                        "targeted allocation returned another frame",
                        format!("thread {t}: {} -> {f}", op.short()),
                    ));
                }
                let ok = CLASSES.with(|ct| {
                    ct.borrow().as_ref().unwrap().allowed[*class as usize][*c as usize]
                });
                if !ok || cfg.classing.slots(*c).is_none() {
                    self.viol.push(Violation::new(
                        "C13",
                        "reported class not permitted by policy",
                        format!("thread {t}: {} reported C{c}", op.short()),
                    ));
                }
                // completed-call model: a concurrent in-flight free may not have
                // returned yet although its frames were already reused
                let len = 1usize << *order;
                if *f % len == 0 && *f + len <= self.model.frames {
                    if !self.model.block_free(*f, *order) {
                        // frames freed by a still in-flight put: complete it in the model
                        self.early_reuse(*f, *order);
                    }
                    let _ = self.model.apply_alloc(*f, *order);
                }
            }
            (Res::Err(_), Op::Get { .. }) => {
                self.own[t].push(None);
            }
            (Res::Done, Op::Put { frame, order, .. }) => {
                if !self.early[t] && self.model.free_ok(*frame, *order) {
                    self.model.apply_free(*frame, *order);
                }
            }
            (r, Op::Put { .. }) => {
                self.viol.push(Violation::new(
                    "C03",
                    "free of a held block failed",
                    format!("thread {t}: {} -> {}", op.short(), r.short()),
                ));
            }
            (Res::Done, Op::Change { id: Some(tr), op: Some(top), .. }) => match top {
                TreeOp::Offline => {
                    let r = self.model.tree_range(*tr);
                    if self.model.free_in(r.clone()) != r.len() || self.inflight.iter().any(|o| o.is_some()) {
                        self.model.unjudged_accounting = true;
                    }
                    self.model.offline[*tr] = true;
                }
                TreeOp::Online => {
                    self.model.offline[*tr] = false;
                }
            },
            _ => {}
        }
    }

    /// A get returned frames that a still in-flight put is freeing: apply that put to
    /// the completed-call model now (its effect is visible).
    fn early_reuse(&mut self, f: usize, order: usize) {
        let (a0, a1) = (f, f + (1usize << order));
        let puts: Vec<(usize, usize, usize)> = self
            .inflight
            .iter()
            .enumerate()
            .filter_map(|(t, o)| match o {
                Some(Op::Put { frame, order, .. }) if !self.early[t] => Some((t, *frame, *order)),
                _ => None,
            })
            .collect();
        for (t, pf, po) in puts {
            let (b0, b1) = (pf, pf + (1usize << po));
            if a0 < b1 && b0 < a1 && self.model.free_ok(pf, po) {
                self.model.apply_free(pf, po);
                self.early[t] = true;
            }
        }
    }
}

// ---------------------------------------------------------------------------
// Runner
// ---------------------------------------------------------------------------

#[derive(Clone, Debug, Default)]
pub struct IlvOpts {
    /// maximal number of preemptions (usize::MAX = unbounded)
    pub bound: usize,
    /// recover at every persistent write (C05)
    pub crash: bool,
    /// run the C10 probe on final states
    pub c10: bool,
    /// use the state cache
    pub cache: bool,
    /// preemption bound for scenarios with two threads of one call each (None: `bound`)
    pub bound_two_calls: Option<usize>,
    /// C01: on every new final state, free all held blocks but one and exhaust memory at
    /// the huge orders: no returned block may overlap the block still held
    pub epilogue: bool,
    /// wall clock cap per scenario
    pub max_secs: f64,
    pub max_execs: u64,
}

#[derive(Clone, Debug, Default)]
pub struct IlvStats {
    pub scenarios: u64,
    pub executions: u64,
    pub steps: u64,
    pub sched_points: u64,
    pub cache_states: u64,
    pub pruned: u64,
    pub capped: u64,
    pub vacuous: u64,
    pub conflict_execs: u64,
    pub single_outcome: u64,
    pub outcomes: u64,
    pub max_solo_steps: u64,
    pub panicked_execs: u64,
    pub crash_points: u64,
    pub crash_distinct: u64,
    pub c10_probes: u64,
    pub bound_completed: usize,
    pub per_scenario: Vec<Value>,
    pub samples: Vec<Value>,
    pub determinism_checks: u64,
}
impl IlvStats {
    pub fn merge(&mut self, o: IlvStats) {
        self.scenarios += o.scenarios;
        self.executions += o.executions;
        self.steps += o.steps;
        self.sched_points += o.sched_points;
        self.cache_states += o.cache_states;
        self.pruned += o.pruned;
        self.capped += o.capped;
        self.vacuous += o.vacuous;
        self.conflict_execs += o.conflict_execs;
        self.single_outcome += o.single_outcome;
        self.outcomes += o.outcomes;
        self.max_solo_steps = self.max_solo_steps.max(o.max_solo_steps);
        self.panicked_execs += o.panicked_execs;
        self.crash_points += o.crash_points;
        self.crash_distinct += o.crash_distinct;
        self.c10_probes += o.c10_probes;
        self.determinism_checks += o.determinism_checks;
        self.per_scenario.extend(o.per_scenario);
        if self.samples.len() < 8 {
            self.samples.extend(o.samples.into_iter().take(1));
        }
    }
}

struct SendPtr<T>(*const T);
unsafe impl<T> Send for SendPtr<T> {}
impl<T> SendPtr<T> {
    /// (a method, so that closures capture the whole wrapper)
    fn get(&self) -> &'static T {
        unsafe { &*self.0 }
    }
}
impl<T> Clone for SendPtr<T> {
    fn clone(&self) -> Self {
        Self(self.0)
    }
}

/// One finished execution
pub struct Trace {
    /// chosen thread per scheduling point
    pub choices: Vec<u8>,
    /// enabled threads (bitmask) per scheduling point
    pub enabled: Vec<u8>,
    /// thread that ran before this point (255 = none) and is still enabled
    pub running: Vec<u8>,
    pub viol: Vec<Violation>,
    pub panicked: bool,
    pub outcome: u128,
    /// index at which the execution was cut by the state cache (no branching beyond)
    pub cut: Option<usize>,
    pub calls: Vec<Vec<(Op, Res)>>,
    pub max_solo: u64,
    pub event_hash: u64,
    /// two threads touched the same address and at least one of them wrote to it
    pub conflict: bool,
}

pub struct Runner<'a> {
    pub sc: &'a Scenario,
    pub sut: Sut,
    base: Vec<u8>,
    model0: Model,
    gens: Vec<Option<Generator<'static, (), Ev>>>,
    pub rec: Option<Recoverer>,
    pub opts: IlvOpts,
    cache: HashMap<u128, u32>,
    pub stats: IlvStats,
    /// coroutines leaked because a call did not terminate: exploration of the scenario stops
    pub leaked: u64,
    final_states: HashSet<u128>,
    pub epilogues: u64,
}

impl<'a> Runner<'a> {
    /// Build the allocator and run the set-up. Err if the set-up itself misbehaves.
    pub fn new(sc: &'a Scenario, opts: IlvOpts) -> Result<Self, String> {
        let sut = Sut::try_new(&sc.cfg, sc.cfg.init.init(), true)
            .map_err(|r| format!("construction failed: {}", r.short()))?;
        let classes = ClassTable::new(sut.policy);
        let mut model = Model::new(&sc.cfg);
        let mut viol = vec![];
        for op in &sc.setup {
            let before = matches!(op, Op::Change { .. }).then(|| oracle::tree_view(&sut));
            let res = sut.apply(op);
            oracle::step(
                &mut model,
                &sc.cfg,
                &classes,
                op,
                &res,
                before.as_ref(),
                &sut,
                &mut viol,
            );
            if res.is_panic() {
                return Err(format!("set-up op {} panicked", op.short()));
            }
        }
        CLASSES.with(|c| *c.borrow_mut() = Some(classes));
        let base = sut.bufs.snapshot();
        let rec = if opts.crash {
            Recoverer::new(&sc.cfg)
        } else {
            None
        };
        Ok(Self {
            sc,
            sut,
            base,
            model0: model,
            gens: (0..sc.threads.len()).map(|_| None).collect(),
            rec,
            opts,
            cache: HashMap::new(),
            stats: IlvStats::default(),
            leaked: 0,
            final_states: HashSet::new(),
            epilogues: 0,
        })
    }

    fn spawn(&mut self, t: usize) {
        let ops = SendPtr(&self.sc.threads[t] as *const Vec<TOp>);
        let sut = SendPtr(&self.sut as *const Sut);
        let cfg = SendPtr(&self.sc.cfg as *const Config);
        let body = move || {
            let ops = ops.get();
            let sut = sut.get();
            let cfg = cfg.get();
            for top in ops {
                let op = with_exec(|e| e.on_call(t, top, cfg));
                let Some(op) = op else {
                    with_exec(|e| e.op_idx[t] += 1);
                    continue;
                };
                // local state inside a call = f(op index, earlier results, observations of this call)
                hook::with_ctx(|c| c.obs_hash = 0);
                let res = match crate::common::catch(|| sut.apply_raw(&op)) {
                    Ok(r) => r,
                    Err(p) => Res::Panic(p),
                };
                with_exec(|e| e.on_return(t, &op, res.clone(), cfg));
                with_exec(|e| e.calls[t].push((op.clone(), res)));
            }
            Ev::Done
        };
        match self.gens[t].as_mut() {
            Some(g) => g.init_code(body),
            None => self.gens[t] = Some(Gn::<()>::new_opt(STACK_WORDS, body)),
        }
    }

    /// Execute one schedule: follow `prefix` (strictly), then the default policy.
    /// `budget_at_prefix_end`: remaining preemptions after the prefix (for the cache).
    pub fn run(&mut self, prefix: &[u8], remaining_budget: u32) -> Trace {
        crate::common::PROGRESS.fetch_add(1, std::sync::atomic::Ordering::Relaxed);
        let n = self.sc.threads.len();
        self.sut.bufs.restore(&self.base);
        EXEC.with(|e| {
            *e.borrow_mut() = Some(Exec {
                model: self.model0.clone(),
                m_call: self.model0.clone(),
                inflight: vec![None; n],
                early: vec![false; n],
                own: vec![vec![]; n],
                calls: vec![vec![]; n],
                viol: vec![],
                panicked: false,
                res_hash: vec![0; n],
                op_idx: vec![0; n],
                returned: false,
                quiet: false,
            })
        });
        let mut ctx = Ctx::new(Mode::Sched);
        ctx.check_bounds = true;
        ctx.ranges = vec![
            (self.sut.bufs.local.ptr as usize, self.sut.bufs.local.len),
            (self.sut.bufs.trees.ptr as usize, self.sut.bufs.trees.len),
            (self.sut.bufs.lower.ptr as usize, self.sut.bufs.lower.len),
        ];
        hook::install_ctx(ctx);

        let mut pending: Vec<Option<Event>> = vec![None; n];
        let mut obs: Vec<u64> = vec![0; n];
        let mut done = vec![false; n];
        // park every thread at its first atomic operation
        for t in 0..n {
            self.spawn(t);
            self.resume(t, &mut pending, &mut obs, &mut done);
        }
        let mut tr = Trace {
            choices: Vec::with_capacity(64),
            enabled: Vec::with_capacity(64),
            running: Vec::with_capacity(64),
            viol: vec![],
            panicked: false,
            outcome: 0,
            cut: None,
            calls: vec![],
            max_solo: 0,
            event_hash: 0,
            conflict: false,
        };
        // per thread: (address, wrote)
        let mut touched: Vec<Vec<(usize, bool)>> = vec![Vec::new(); n];
        let mut cur: u8 = 255;
        let mut solo: u64 = 0;
        let mut step: usize = 0;
        let lower = (self.sut.bufs.lower.ptr as usize, self.sut.bufs.lower.len);
        let mut abandoned = false;
        loop {
            let mask: u8 = (0..n).fold(0u8, |m, t| if !done[t] { m | (1 << t) } else { m });
            if mask == 0 {
                break;
            }
            let running = if cur != 255 && !done[cur as usize] {
                cur
            } else {
                255
            };
            let choice = if step < prefix.len() {
                let c = prefix[step];
                if mask & (1 << c) == 0 {
                    panic!(
                        "MACHINERY: schedule prefix diverged at step {step}: thread {c} not enabled in {}",
                        self.sc.name
                    );
                }
                c
            } else if running != 255 {
                running
            } else {
                mask.trailing_zeros() as u8
            };
            // state cache (only beyond the prefix: the prefix was visited by the parent)
            if self.opts.cache && step >= prefix.len() {
                let key = self.state_key(&pending, &obs, &done, running);
                let budget = if self.opts.bound == usize::MAX {
                    u32::MAX
                } else {
                    remaining_budget
                };
                match self.cache.get(&key) {
                    Some(&b) if b >= budget => {
                        self.stats.pruned += 1;
                        tr.cut = Some(step);
                        abandoned = true;
                        break;
                    }
                    _ => {
                        self.cache.insert(key, budget);
                    }
                }
            }
            tr.choices.push(choice);
            tr.enabled.push(mask);
            tr.running.push(running);
            let t = choice as usize;
            if choice != cur {
                solo = 0;
            }
            // crash point: before a potentially writing operation on the persistent buffer
            if let Some(ev) = pending[t]
                && ev.kind != Kind::Load
                && ev.addr >= lower.0
                && ev.addr + ev.size <= lower.0 + lower.1
                && self.rec.is_some()
            {
                self.crash_check();
            }
            if let Some(ev) = pending[t] {
                let w = ev.kind != Kind::Load;
                if !tr.conflict {
                    for (u, tu) in touched.iter().enumerate() {
                        if u != t && tu.iter().any(|&(a, uw)| a / 8 == ev.addr / 8 && (w || uw)) {
                            tr.conflict = true;
                        }
                    }
                }
                if !touched[t].contains(&(ev.addr, w)) {
                    touched[t].push((ev.addr, w));
                }
            }
            tr.event_hash = mix64(
                tr.event_hash,
                pending[t].map(|e| (e.addr as u64) ^ ((e.kind as u64) << 56)).unwrap_or(0) ^ ((t as u64) << 48),
            );
            self.resume(t, &mut pending, &mut obs, &mut done);
            cur = choice;
            step += 1;
            solo += 1;
            let returned = with_exec(|e| std::mem::replace(&mut e.returned, false));
            if returned {
                tr.max_solo = tr.max_solo.max(solo);
                solo = 0;
            }
            if solo > SOLO_BOUND {
                with_exec(|e| {
                    e.viol.push(Violation::new(
                        "C21",
                        "call does not finish within the step budget when running alone",
                        format!(
                            "thread {t} ran {solo} uninterrupted steps inside {}",
                            e.inflight[t].as_ref().map(|o| o.short()).unwrap_or_default()
                        ),
                    ))
                });
                // the call may never finish: leak its coroutine instead of finishing it
                if let Some(g) = self.gens[t].take() {
                    std::mem::forget(g);
                    self.leaked += 1;
                }
                done[t] = true;
                abandoned = true;
                break;
            }
            if step as u64 > HORIZON {
                with_exec(|e| {
                    e.viol.push(Violation::new(
                        "C21",
                        "execution exceeds the horizon (livelock)",
                        format!("{step} steps"),
                    ))
                });
                abandoned = true;
                break;
            }
            if with_exec(|e| e.panicked) {
                // state is meaningless after a panic
                abandoned = true;
                break;
            }
        }
        self.stats.steps += step as u64;
        if abandoned {
            // finish the remaining coroutines one after the other without monitors; a
            // coroutine that does not finish within the step budget is leaked
            with_exec(|e| e.quiet = true);
            for t in 0..n {
                let mut budget = 50_000u64;
                while !done[t] && self.gens[t].is_some() {
                    self.resume(t, &mut pending, &mut obs, &mut done);
                    budget -= 1;
                    if budget == 0 {
                        if let Some(g) = self.gens[t].take() {
                            std::mem::forget(g);
                            self.leaked += 1;
                        }
                        done[t] = true;
                    }
                }
            }
        }
        let ctx = hook::take_ctx().unwrap();
        let mut exec = EXEC.with(|e| e.borrow_mut().take().unwrap());
        if let Some(ev) = ctx.oob {
            exec.viol.push(Violation::new(
                "C18",
                "atomic access outside the metadata buffers",
                format!("{:?} at {:#x} size {}", ev.kind, ev.addr, ev.size),
            ));
        }
        tr.panicked = exec.panicked;
        if !abandoned {
            // quiescent end: accounting oracles (C04), final crash point, C10 probe
            if self.rec.is_some() {
                let lower = self.sut.bufs.lower.slice().to_vec();
                let rec = self.rec.as_mut().unwrap();
                rec.check(&lower, &exec.model, &[], &mut exec.viol);
            }
            // held blocks are allocated
            oracle::state(&exec.model, &self.sut, true, &mut exec.viol);
            if self.opts.c10 && self.sc.cfg.classing.never_invalid() && !exec.model.unjudged_accounting {
                let bytes = self.sut.bufs.snapshot();
                self.stats.c10_probes +=
                    crate::probes::c10_probe(&exec.model, &self.sc.cfg, &self.sut, &bytes, &mut exec.viol);
            }
            let mut h = std::collections::hash_map::DefaultHasher::new();
            std::hash::Hash::hash(&exec.calls, &mut h);
            let final_bytes = self.sut.bufs.snapshot();
            tr.outcome = hash128(&final_bytes, std::hash::Hasher::finish(&h));
            if self.opts.epilogue
                && !exec.viol.iter().any(|v| matches!(v.prop, "C01" | "C02" | "C03" | "MACHINERY"))
                && self.final_states.insert(tr.outcome)
            {
                self.epilogues += 1;
                c01_epilogue(&exec.model, &self.sut, &final_bytes, &mut exec.viol);
            }
        }
        tr.viol = exec.viol;
        tr.calls = exec.calls;
        self.stats.executions += 1;
        self.stats.sched_points += tr.choices.len() as u64;
        self.stats.max_solo_steps = self.stats.max_solo_steps.max(tr.max_solo);
        if tr.panicked {
            self.stats.panicked_execs += 1;
        }
        tr
    }

    fn resume(
        &mut self,
        t: usize,
        pending: &mut [Option<Event>],
        obs: &mut [u64],
        done: &mut [bool],
    ) {
        hook::with_ctx(|c| c.obs_hash = obs[t]);
        hook::set_in_coroutine(true);
        let r = self.gens[t].as_mut().unwrap().resume();
        hook::set_in_coroutine(false);
        obs[t] = hook::with_ctx(|c| c.obs_hash).unwrap_or(0);
        match r {
            Some(Ev::Point(ev)) => pending[t] = Some(ev),
            Some(Ev::Done) | None => {
                pending[t] = None;
                done[t] = true;
            }
        }
    }

    fn state_key(&self, pending: &[Option<Event>], obs: &[u64], done: &[bool], running: u8) -> u128 {
        let mut x: u64 = running as u64;
        with_exec(|e| {
            for t in 0..pending.len() {
                x = mix64(x, e.op_idx[t] as u64);
                x = mix64(x, e.res_hash[t]);
                x = mix64(x, obs[t]);
                x = mix64(x, done[t] as u64);
                if let Some(ev) = pending[t] {
                    x = mix64(x, ev.addr as u64);
                    x = mix64(x, ev.kind as u64);
                }
            }
        });
        hash128(&self.sut.bufs.snapshot(), x)
    }

    fn crash_check(&mut self) {
        hook::with_ctx(|c| c.mode = Mode::Off);
        self.crash_check_inner();
        hook::with_ctx(|c| c.mode = Mode::Sched);
    }

    fn crash_check_inner(&mut self) {
        let lower = self.sut.bufs.lower.slice().to_vec();
        let rec = self.rec.as_mut().unwrap();
        EXEC.with(|e| {
            let mut e = e.borrow_mut();
            let e = e.as_mut().unwrap();
            let inflight: Vec<Op> = e.inflight.iter().flatten().cloned().collect();
            let mut v = vec![];
            rec.check(&lower, &e.model, &inflight, &mut v);
            e.viol.extend(v);
        });
    }
}

/// After quiescence: keep one held block, free all others, then allocate huge-order
/// blocks until out of memory. A block overlapping the one still held is a C01 violation
/// (counters that drifted during the interleaving only show once they read "entirely free").
fn c01_epilogue(m: &Model, sut: &Sut, bytes: &[u8], out: &mut Vec<Violation>) {
    use llfree::{HUGE_ORDER, TREE_ORDER};
    let held: Vec<(usize, usize)> = m.held.iter().map(|(&s, &o)| (s, o)).collect();
    let spec = &sut.cfg.classing;
    let mut keep_sets: Vec<Option<usize>> = vec![None];
    for i in 0..held.len().min(6) {
        keep_sets.push(Some(i));
    }
    for keep in keep_sets {
        sut.bufs.restore(bytes);
        let mut mm = m.clone();
        if let Some(k) = keep {
            for (i, &(s, o)) in held.iter().enumerate() {
                if i == k {
                    continue;
                }
                let op = Op::Put { frame: s, order: o, class: spec.natural_class(o), local: None };
                if sut.apply(&op) == Res::Done && mm.free_ok(s, o) {
                    mm.apply_free(s, o);
                }
            }
        }
        let mut orders = vec![TREE_ORDER, HUGE_ORDER + 1, HUGE_ORDER];
        orders.retain(|&o| o <= TREE_ORDER);
        orders.dedup();
        for order in orders {
            for _ in 0..mm.frames / (1usize << HUGE_ORDER) + 2 {
                let op = Op::Get { order, class: spec.natural_class(order), local: None, target: None };
                match sut.apply(&op) {
                    Res::Got(f, _) => {
                        if let Err(e) = mm.apply_alloc(f, order) {
                            out.push(Violation::new(
                                "C01",
                                "allocation after the interleaving returned a block overlapping a block that is still held",
                                format!("after quiescence (kept held block {:?}, freed the others): {} -> {f}: {e}", keep.map(|k| held[k]), op.short()),
                            ));
                            sut.bufs.restore(bytes);
                            return;
                        }
                    }
                    _ => break,
                }
            }
        }
    }
    sut.bufs.restore(bytes);
}

fn preemptions(tr_running: &[u8], choices: &[u8], upto: usize) -> usize {
    (0..upto)
        .filter(|&i| tr_running[i] != 255 && choices[i] != tr_running[i])
        .count()
}

pub fn replay_json(sc: &Scenario, schedule: &[u8], extra: Value) -> Value {
    json!({"engine": "ilv", "scenario": sc.json(), "schedule": schedule, "extra": extra})
}

/// Explore all schedules of `sc` with at most `opts.bound` preemptions.
pub fn explore(sc: &Scenario, opts: &IlvOpts, col: &mut Collector) -> IlvStats {
    let t0 = Instant::now();
    let mut runner = match Runner::new(sc, opts.clone()) {
        Ok(r) => r,
        Err(e) => {
            col.add(
                Violation::new("MACHINERY", "scenario set-up failed", format!("{}: {e}", sc.name)),
                || replay_json(sc, &[], json!({})),
            );
            return IlvStats {
                scenarios: 1,
                ..Default::default()
            };
        }
    };
    let two_calls = sc.threads.len() == 2 && sc.threads.iter().all(|t| t.len() == 1);
    let bound = match (two_calls, opts.bound_two_calls) {
        (true, Some(b)) => b,
        _ => opts.bound,
    };
    runner.opts.bound = bound;
    let mut outcomes: HashSet<u128> = HashSet::new();
    let mut stack: Vec<(Vec<u8>, usize)> = vec![(vec![], 0)]; // (prefix, preemptions used in prefix)
    let mut capped = false;
    let mut first = true;
    let mut conflict_execs = 0u64;
    while let Some((prefix, used)) = stack.pop() {
        if runner.stats.executions >= opts.max_execs || t0.elapsed().as_secs_f64() > opts.max_secs {
            capped = true;
            break;
        }
        if runner.leaked >= 3 {
            // a call of this scenario does not terminate (reported); exploring further
            // schedules would only leak more coroutine stacks
            capped = true;
            break;
        }
        let remaining = if bound == usize::MAX {
            u32::MAX
        } else {
            (bound - used) as u32
        };
        let tr = runner.run(&prefix, remaining);
        if first {
            // determinism: the same schedule must give identical observations
            let tr2 = {
                let saved_cache = std::mem::take(&mut runner.cache);
                let saved_opt = runner.opts.cache;
                runner.opts.cache = false;
                let t = runner.run(&tr.choices, 0);
                runner.opts.cache = saved_opt;
                runner.cache = saved_cache;
                runner.stats.executions -= 1;
                t
            };
            if tr.cut.is_none() && (tr2.event_hash != tr.event_hash || tr2.outcome != tr.outcome) {
                panic!("MACHINERY: replay of a schedule diverged in {}", sc.name);
            }
            runner.stats.determinism_checks += 1;
            first = false;
        }
        if tr.cut.is_none() && !tr.panicked && outcomes.insert(tr.outcome) && std::env::var("VERIF_DUMP_OUTCOMES").is_ok() {
            // development aid: print every new final outcome with its schedule
            eprintln!(
                "OUTCOME {}: {:?} schedule={:?}",
                sc.name,
                tr.calls.iter().map(|c| c.iter().map(|(o, r)| format!("{}->{}", o.short(), r.short())).collect::<Vec<_>>()).collect::<Vec<_>>(),
                tr.choices
            );
            if outcomes.len() == 1 {
                eprintln!("REPLAYJSON {}", replay_json(sc, &tr.choices, json!({})));
            }
        }
        if tr.conflict {
            conflict_execs += 1;
        }
        // a scenario that frees a block nobody holds is a bug of the scenario generator:
        // nothing observed in such an execution is a verdict
        let machinery = tr.viol.iter().any(|v| v.prop == "MACHINERY");
        for v in tr.viol.iter().filter(|v| !machinery || v.prop == "MACHINERY") {
            let mut v = v.clone();
            if !v.clause.starts_with("panic:") && !v.clause.contains("gave up waiting") {
                v.clause = format!("{} [history: {}]", v.clause, sc.shape());
            }
            col.add(v, || {
                replay_json(sc, &tr.choices, json!({"calls": tr.calls.iter().map(|c| c.iter().map(|(o, r)| format!("{} -> {}", o.short(), r.short())).collect::<Vec<_>>()).collect::<Vec<_>>()}))
            });
        }
        // branch: every alternative at every point beyond the prefix
        let limit = tr.cut.unwrap_or(tr.choices.len());
        // preemptions used up to each point (recomputed from the trace itself)
        let mut used_i = preemptions(&tr.running, &tr.choices, prefix.len().min(limit));
        debug_assert!(used_i == used || tr.cut.is_some() || prefix.is_empty() || used_i <= used);
        for i in prefix.len()..limit {
            let mask = tr.enabled[i];
            let chosen = tr.choices[i];
            let running = tr.running[i];
            for alt in 0..8u8 {
                if mask & (1 << alt) == 0 || alt == chosen {
                    continue;
                }
                let cost = used_i + (running != 255 && alt != running) as usize;
                if cost > bound {
                    continue;
                }
                let mut p = tr.choices[..i].to_vec();
                p.push(alt);
                stack.push((p, cost));
            }
            if running != 255 && chosen != running {
                used_i += 1;
            }
        }
    }
    let mut st = std::mem::take(&mut runner.stats);
    st.scenarios = 1;
    st.cache_states = runner.cache.len() as u64;
    st.outcomes = outcomes.len() as u64;
    st.capped = capped as u64;
    // vacuity guard: no execution in which two threads touched the same word with a write
    if conflict_execs == 0 && sc.threads.len() > 1 {
        st.vacuous = 1;
    }
    st.conflict_execs = conflict_execs;
    if outcomes.len() <= 1 {
        st.single_outcome = 1;
    }
    if let Some(rec) = &runner.rec {
        st.crash_points = rec.points;
        st.crash_distinct = rec.distinct;
    }
    st.bound_completed = if capped { 0 } else { bound.min(99) };
    st.per_scenario.push(json!({"scenario": sc.name, "executions": st.executions,
        "preemption_bound": if bound == usize::MAX { json!("unbounded") } else { json!(bound) },
        "outcomes": st.outcomes, "conflicting_executions": conflict_execs, "capped": capped, "secs": t0.elapsed().as_secs_f64(),
        "cache_states": st.cache_states, "pruned": st.pruned}));
    st.samples.push(json!({"scenario": sc.describe(), "executions": st.executions,
        "distinct_outcomes": st.outcomes}));
    st
}

/// Run many scenarios on all cores
pub fn explore_all(scs: &[Scenario], opts: &IlvOpts) -> (IlvStats, Collector) {
    use std::sync::Mutex;
    use std::sync::atomic::{AtomicUsize, Ordering};
    let next = AtomicUsize::new(0);
    let result = Mutex::new((IlvStats::default(), Collector::default()));
    let workers = std::thread::available_parallelism()
        .map(|n| n.get())
        .unwrap_or(4)
        .min(scs.len().max(1));
    std::thread::scope(|s| {
        for _ in 0..workers {
            s.spawn(|| {
                loop {
                    let i = next.fetch_add(1, Ordering::SeqCst);
                    if i >= scs.len() {
                        break;
                    }
                    let mut col = Collector::default();
                    let st = explore(&scs[i], opts, &mut col);
                    let mut r = result.lock().unwrap();
                    r.0.merge(st);
                    r.1.merge(col);
                }
            });
        }
    });
    let (mut st, col) = result.into_inner().unwrap();
    st.bound_completed = if st.capped == 0 { opts.bound.min(99) } else { 0 };
    (st, col)
}

/// Re-execute a replay artefact with a fixed schedule (no exploration)
pub fn replay(v: &Value) -> Result<Vec<String>, String> {
    let sc = Scenario::from_json(&v["scenario"]).ok_or("bad scenario")?;
    let schedule: Vec<u8> = v["schedule"]
        .as_array()
        .ok_or("no schedule")?
        .iter()
        .map(|x| x.as_u64().unwrap_or(0) as u8)
        .collect();
    let opts = IlvOpts {
        bound: 0,
        crash: v["property"].as_str() == Some("C05"),
        c10: v["property"].as_str() == Some("C10"),
        cache: false,
        bound_two_calls: None,
        epilogue: v["property"].as_str() == Some("C01"),
        max_secs: 60.0,
        max_execs: 1,
    };
    let mut runner = Runner::new(&sc, opts)?;
    let tr = runner.run(&schedule, 0);
    let mut out = vec![sc.describe(), format!("schedule {:?}", tr.choices)];
    for (t, calls) in tr.calls.iter().enumerate() {
        for (o, r) in calls {
            out.push(format!("thread {t}: {} -> {}", o.short(), r.short()));
        }
    }
    for v in &tr.viol {
        out.push(format!("  violates {}: {} ({})", v.prop, v.clause, v.detail));
    }
    let _: BTreeMap<u8, u8> = BTreeMap::new();
    Ok(out)
}
