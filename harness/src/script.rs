//! SCRIPT: bounded enumeration of parameterised call histories that are longer than the
//! breadth-first search of `seq.rs` reaches (5-6 calls), executed on the real allocator and
//! judged call by call with the same reference model and oracles (`oracle::step`,
//! `oracle::state`). A violation's replay artefact is an ordinary `seq` artefact (config +
//! operation list), so `run replay` re-executes it without the enumerator.
//!
//! Families:
//!  * cursor sweep: a slot's row cursor is moved to every huge frame (first / last row) of
//!    its reserved tree by a targeted allocation, the tree is freed again (through the slot,
//!    globally, or only partly), then one allocation of every order runs through the slot and
//!    one without slot.

use serde_json::json;

use llfree::{HUGE_FRAMES, TREE_FRAMES, TREE_HUGE, TREE_ORDER};

use crate::common::{ClassingSpec, Config, InitMode, Op, PolicyKind, Res, Sut};
use crate::model::Model;
use crate::oracle::{self, ClassTable, Violation};
use crate::report::Collector;

struct Runner {
    cfg: Config,
    sut: Sut,
    classes: ClassTable,
    model: Model,
    ops: Vec<Op>,
    /// number of calls executed and judged
    calls: u64,
}

struct Mark {
    bytes: Vec<u8>,
    model: Model,
    ops: usize,
}

impl Runner {
    fn new(cfg: &Config) -> Option<Self> {
        let sut = Sut::try_new(cfg, cfg.init.init(), true).ok()?;
        let classes = ClassTable::new(sut.policy);
        Some(Self {
            cfg: cfg.clone(),
            model: Model::new(cfg),
            sut,
            classes,
            ops: vec![],
            calls: 0,
        })
    }
    fn mark(&self) -> Mark {
        Mark {
            bytes: self.sut.bufs.snapshot(),
            model: self.model.clone(),
            ops: self.ops.len(),
        }
    }
    fn reset(&mut self, m: &Mark) {
        self.sut.bufs.restore(&m.bytes);
        self.model = m.model.clone();
        self.ops.truncate(m.ops);
    }
    /// Execute and judge one call; violations go to `col` with the history so far
    fn call(&mut self, op: Op, full: bool, col: &mut Collector) -> Res {
        let before = matches!(op, Op::Change { .. }).then(|| oracle::tree_view(&self.sut));
        let res = self.sut.apply(&op);
        self.ops.push(op.clone());
        self.calls += 1;
        let mut viol: Vec<Violation> = vec![];
        oracle::step(
            &mut self.model,
            &self.cfg,
            &self.classes,
            &op,
            &res,
            before.as_ref(),
            &self.sut,
            &mut viol,
        );
        if !res.is_panic() {
            oracle::state(&self.model, &self.sut, full, &mut viol);
        }
        for v in viol {
            let cfg = self.cfg.json();
            let ops: Vec<_> = self.ops.iter().map(|o| o.json()).collect();
            col.add(v, || json!({"engine": "seq", "config": cfg, "ops": ops, "family": "script"}));
        }
        res
    }
}

/// Returns (histories, calls)
pub fn cursor_family(col: &mut Collector) -> (u64, u64) {
    let rows_per_huge = HUGE_FRAMES / 64;
    let specs = [
        ClassingSpec::simple(1),
        ClassingSpec::movable(1),
        ClassingSpec::custom("single[(0,1)]", &[(0, 1)], 0, PolicyKind::Simple),
    ];
    let frames = [TREE_FRAMES, 2 * TREE_FRAMES + HUGE_FRAMES + 5];
    let mut histories = 0u64;
    let mut calls = 0u64;
    for &n in &frames {
        for spec in &specs {
            let cfg = Config::new(n, spec.clone(), InitMode::FreeAll);
            let Some(mut r) = Runner::new(&cfg) else { continue };
            let base = r.mark();
            for &(class, slots) in &spec.classes {
                if slots == 0 {
                    continue;
                }
                for child in 0..TREE_HUGE {
                    for row in [0, rows_per_huge - 1] {
                        r.reset(&base);
                        let get0 = Op::Get { order: 0, class, local: Some(0), target: None };
                        let Res::Got(f0, _) = r.call(get0, false, col) else { continue };
                        let tree = f0 / TREE_FRAMES;
                        let mut target = tree * TREE_FRAMES + child * HUGE_FRAMES + row * 64;
                        if target == f0 {
                            target += 1;
                        }
                        if target >= n {
                            continue;
                        }
                        let get1 = Op::Get { order: 0, class, local: Some(0), target: Some(target) };
                        let Res::Got(..) = r.call(get1, false, col) else { continue };
                        let cursor_set = r.mark();
                        // 0: free both through the slot, 1: free both without slot,
                        // 2: free only the first one through the slot (tree stays partly used)
                        for variant in 0..3 {
                            r.reset(&cursor_set);
                            let local = if variant == 1 { None } else { Some(0) };
                            let put0 = Op::Put { frame: f0, order: 0, class, local };
                            if r.call(put0, false, col) != Res::Done {
                                continue;
                            }
                            if variant != 2 {
                                let put1 = Op::Put { frame: target, order: 0, class, local };
                                if r.call(put1, false, col) != Res::Done {
                                    continue;
                                }
                            }
                            let freed = r.mark();
                            for order in 0..=TREE_ORDER {
                                for local in [Some(0), None] {
                                    r.reset(&freed);
                                    let get = Op::Get { order, class, local, target: None };
                                    r.call(get, true, col);
                                    histories += 1;
                                }
                            }
                        }
                    }
                }
            }
            calls += r.calls;
        }
    }
    (histories, calls)
}

// ---------------------------------------------------------------------------
// MACRO: explicit-state search over *macro operations*
// ---------------------------------------------------------------------------
//
// A macro operation expands (depending on the current model state) into many basic calls
// - "allocate until out of memory", "free every second held block", ... - so that a search
// of depth 2-3 over macro operations reaches histories of thousands of calls: exhausted
// trees, fragmented trees, reservations that moved several times. Every basic call is
// judged by `oracle::step`; at the end of every macro operation the complete state oracle
// runs and the probes of the hosting property (drain probe, handoff, ...) are applied.

use std::collections::HashSet;
use std::time::Instant;

use crate::common::TreeOp;
use crate::seq::{Probes, SeqParams, SeqStats, State, state_key};

#[derive(Clone, Debug, PartialEq)]
pub enum Macro {
    /// allocate until the allocator reports out of memory
    Exhaust { order: usize, class: u8, local: Option<usize> },
    /// allocate `n` blocks
    Take { n: usize, order: usize, class: u8, local: Option<usize> },
    /// free every held block, ascending or descending
    FreeAll { class: u8, local: Option<usize>, reverse: bool },
    /// free the held blocks with even / odd index (sorted by frame)
    FreeEveryOther { class: u8, local: Option<usize>, phase: usize },
    /// free the held blocks of one tree
    FreeTree { tree: usize, class: u8, local: Option<usize> },
    Drain,
    Offline(usize),
    Online(usize),
}

impl Macro {
    pub fn short(&self) -> String {
        fn l(l: &Option<usize>) -> String {
            l.map(|i| format!("s{i}")).unwrap_or("s-".into())
        }
        match self {
            Macro::Exhaust { order, class, local } => format!("exhaust(o{order},c{class},{})", l(local)),
            Macro::Take { n, order, class, local } => format!("take({n}x o{order},c{class},{})", l(local)),
            Macro::FreeAll { class, local, reverse } => {
                format!("free-all(c{class},{},{})", l(local), if *reverse { "desc" } else { "asc" })
            }
            Macro::FreeEveryOther { class, local, phase } => format!("free-every-other({phase},c{class},{})", l(local)),
            Macro::FreeTree { tree, class, local } => format!("free-tree({tree},c{class},{})", l(local)),
            Macro::Drain => "drain".into(),
            Macro::Offline(t) => format!("offline({t})"),
            Macro::Online(t) => format!("online({t})"),
        }
    }
}

fn macro_alphabet(cfg: &Config, rich: bool) -> Vec<Macro> {
    let spec = &cfg.classing;
    let mut out = vec![];
    let trees = cfg.trees();
    let mut first_class = None;
    for &(class, slots) in &spec.classes {
        first_class.get_or_insert(class);
        let mut locals: Vec<Option<usize>> = vec![];
        if slots > 0 {
            locals.push(Some(0));
            if slots > 1 && rich {
                locals.push(Some(slots - 1));
            }
        }
        if slots == 0 || rich {
            locals.push(None);
        }
        for local in locals {
            out.push(Macro::Exhaust { order: 0, class, local });
            out.push(Macro::Take { n: 1, order: 0, class, local });
            out.push(Macro::Take { n: 1, order: llfree::HUGE_ORDER, class, local });
            if rich {
                out.push(Macro::Take { n: 65, order: 0, class, local });
                out.push(Macro::Take { n: 3, order: 6, class, local });
                out.push(Macro::Exhaust { order: llfree::HUGE_ORDER, class, local });
                out.push(Macro::Take { n: 1, order: TREE_ORDER, class, local });
            }
        }
    }
    let c0 = first_class.unwrap_or(0);
    let l0 = spec.slots(c0).filter(|&s| s > 0).map(|_| 0);
    out.push(Macro::FreeAll { class: c0, local: None, reverse: false });
    out.push(Macro::FreeAll { class: c0, local: l0, reverse: true });
    out.push(Macro::FreeEveryOther { class: c0, local: None, phase: 0 });
    out.push(Macro::FreeEveryOther { class: c0, local: l0, phase: 1 });
    for t in 0..trees.min(if rich { 9 } else { 3 }) {
        out.push(Macro::FreeTree { tree: t, class: c0, local: None });
    }
    out.push(Macro::Drain);
    if rich && trees > 1 {
        out.push(Macro::Offline(trees - 1));
        out.push(Macro::Online(trees - 1));
        out.push(Macro::Offline(0));
        out.push(Macro::Online(0));
    }
    out
}

/// Single allocations of the structurally different orders per class (through the first
/// slot and without slot), one exhausting macro per class, frees and drain: the search
/// reaches every combination of "which class reserved / stole / demoted which tree"
fn policy_alphabet(cfg: &Config) -> Vec<Macro> {
    let spec = &cfg.classing;
    let mut out = vec![];
    let mut first_class = None;
    for &(class, slots) in &spec.classes {
        first_class.get_or_insert(class);
        let local = if slots > 0 { Some(0) } else { None };
        for order in [0, llfree::HUGE_ORDER, TREE_ORDER] {
            out.push(Macro::Take { n: 1, order, class, local });
        }
        if slots > 0 {
            out.push(Macro::Take { n: 1, order: 0, class, local: None });
        }
        if slots > 1 {
            // the last slot of the class (slot indices beyond other classes' slot counts)
            out.push(Macro::Take { n: 1, order: 0, class, local: Some(slots - 1) });
            out.push(Macro::Take { n: 1, order: llfree::HUGE_ORDER, class, local: Some(slots - 1) });
        }
        out.push(Macro::Exhaust { order: llfree::HUGE_ORDER, class, local });
    }
    let c0 = first_class.unwrap_or(0);
    out.push(Macro::FreeAll { class: c0, local: None, reverse: false });
    out.push(Macro::FreeEveryOther { class: c0, local: None, phase: 0 });
    out.push(Macro::Drain);
    out
}

pub fn policy_configs(thorough: bool) -> Vec<Config> {
    let mut specs = vec![
        ClassingSpec::zeroed([1, 1, 1], 1),
        ClassingSpec::zeroed([1, 1, 1], 2),
        ClassingSpec::movable(1),
        // unequal slot counts (slot indices of one class exceed another class's count)
        ClassingSpec::custom("uneven[(0,3),(1,1)]", &[(0, 3), (1, 1)], 1, PolicyKind::Simple),
        ClassingSpec::zeroed([3, 1, 2], 1),
    ];
    if thorough {
        specs.push(ClassingSpec::zeroed([2, 1, 1], 0));
        specs.push(ClassingSpec::simple(1));
        specs.push(ClassingSpec::custom(
            "invalid-pairs[(0,1),(1,1),(2,1)]d1",
            &[(0, 1), (1, 1), (2, 1)],
            1,
            PolicyKind::InvalidPairs,
        ));
    }
    let mut frames = vec![2 * TREE_FRAMES, 3 * TREE_FRAMES];
    if thorough {
        frames.push(2 * TREE_FRAMES + HUGE_FRAMES + 5);
        frames.push(4 * TREE_FRAMES);
    }
    let mut out = vec![];
    for &n in &frames {
        for s in &specs {
            out.push(Config::new(n, s.clone(), InitMode::FreeAll));
        }
    }
    out
}

impl Runner {
    fn quiet(&mut self, op: Op, col: &mut Collector) -> Res {
        let before = matches!(op, Op::Change { .. }).then(|| oracle::tree_view(&self.sut));
        let res = self.sut.apply(&op);
        self.ops.push(op.clone());
        self.calls += 1;
        let mut viol: Vec<Violation> = vec![];
        oracle::step(&mut self.model, &self.cfg, &self.classes, &op, &res, before.as_ref(), &self.sut, &mut viol);
        self.report(viol, col);
        res
    }
    fn report(&self, viol: Vec<Violation>, col: &mut Collector) {
        for v in viol {
            let cfg = self.cfg.json();
            let ops: Vec<_> = self.ops.iter().map(|o| o.json()).collect();
            col.add(v, || json!({"engine": "seq", "config": cfg, "ops": ops, "family": "macro"}));
        }
    }
    /// Returns false if a call panicked (the state is not usable any more)
    fn apply_macro(&mut self, m: &Macro, col: &mut Collector) -> bool {
        let frames = self.cfg.frames;
        let held = |r: &Runner| -> Vec<(usize, usize)> { r.model.held.iter().map(|(&s, &o)| (s, o)).collect() };
        let put_all = |r: &mut Runner, blocks: Vec<(usize, usize)>, class: u8, local: Option<usize>, col: &mut Collector| -> bool {
            for (s, o) in blocks {
                if r.quiet(Op::Put { frame: s, order: o, class, local }, col).is_panic() {
                    return false;
                }
            }
            true
        };
        match m {
            Macro::Exhaust { order, class, local } => {
                for _ in 0..frames + 2 {
                    match self.quiet(Op::Get { order: *order, class: *class, local: *local, target: None }, col) {
                        Res::Got(..) => {}
                        Res::Panic(_) => return false,
                        _ => break,
                    }
                }
                true
            }
            Macro::Take { n, order, class, local } => {
                for _ in 0..*n {
                    match self.quiet(Op::Get { order: *order, class: *class, local: *local, target: None }, col) {
                        Res::Got(..) => {}
                        Res::Panic(_) => return false,
                        _ => break,
                    }
                }
                true
            }
            Macro::FreeAll { class, local, reverse } => {
                let mut b = held(self);
                if *reverse {
                    b.reverse();
                }
                put_all(self, b, *class, *local, col)
            }
            Macro::FreeEveryOther { class, local, phase } => {
                let b: Vec<_> = held(self).into_iter().enumerate().filter(|(i, _)| i % 2 == *phase).map(|(_, b)| b).collect();
                put_all(self, b, *class, *local, col)
            }
            Macro::FreeTree { tree, class, local } => {
                let b: Vec<_> = held(self).into_iter().filter(|(s, _)| s / TREE_FRAMES == *tree).collect();
                put_all(self, b, *class, *local, col)
            }
            Macro::Drain => !self.quiet(Op::Drain, col).is_panic(),
            Macro::Offline(t) | Macro::Online(t) => {
                let op = if matches!(m, Macro::Offline(_)) { TreeOp::Offline } else { TreeOp::Online };
                !self
                    .quiet(Op::Change { id: Some(*t), mclass: None, mfree: 0, class: None, op: Some(op) }, col)
                    .is_panic()
            }
        }
    }
}

#[derive(Default, Debug, Clone)]
pub struct MacroStats {
    pub configs: u64,
    pub sequences: u64,
    pub states: u64,
    pub calls: u64,
    pub capped: u64,
    pub max_history_calls: u64,
    pub depth: usize,
}

pub struct MacroParams {
    pub prop: String,
    pub depth: usize,
    pub rich: bool,
    /// allocation-centred alphabet for the class/policy interplay (small allocators, many
    /// classes, deeper search)
    pub policy_alphabet: bool,
    pub probes: Probes,
    pub max_secs: f64,
}

fn alphabet_for(cfg: &Config, p: &MacroParams) -> Vec<Macro> {
    if p.policy_alphabet { policy_alphabet(cfg) } else { macro_alphabet(cfg, p.rich) }
}

/// Explore the subtree below the first macro operation `first` of one configuration:
/// iterative deepening (depth limit 1, 2, .. p.depth, so that under a wall-clock cap the
/// shallower levels are complete), depth-first with explicit marks (restore in place),
/// state dedup per iteration.
fn macro_explore(cfg: &Config, p: &MacroParams, first: usize, col: &mut Collector) -> MacroStats {
    let t0 = Instant::now();
    let mut st = MacroStats { depth: p.depth, ..Default::default() };
    let Some(mut r) = Runner::new(cfg) else { return st };
    let alphabet = alphabet_for(cfg, p);
    let seq_params = SeqParams {
        prop: p.prop.clone(),
        profile: crate::model::Profile::small(),
        depth: 0,
        max_states: 0,
        probes: p.probes.clone(),
        max_secs: 0.0,
    };
    let mut seq_stats = SeqStats::default();
    struct Frame {
        mark: Mark,
        next: usize,
    }
    let root = r.mark();
    // states whose oracles and probes already ran (across iterations)
    let mut judged: HashSet<u128> = HashSet::new();
    'deepening: for limit in 1..=p.depth {
        let mut visited: HashSet<u128> = HashSet::new();
        r.reset(&root);
        let mut stack = vec![Frame { mark: r.mark(), next: first }];
        let mut names: Vec<String> = vec![];
        loop {
            let depth = stack.len();
            let Some(top) = stack.last_mut() else { break };
            if t0.elapsed().as_secs_f64() > p.max_secs {
                st.capped = 1;
                break 'deepening;
            }
            // the root frame only runs the job's first macro
            if top.next >= alphabet.len() || (depth == 1 && top.next > first) {
                stack.pop();
                names.pop();
                continue;
            }
            let m = alphabet[top.next].clone();
            top.next += 1;
            let mark_ops = top.mark.ops;
            r.reset(&top.mark);
            let ok = r.apply_macro(&m, col);
            if depth == limit {
                st.sequences += 1;
            }
            st.max_history_calls = st.max_history_calls.max(r.ops.len() as u64);
            if !ok || r.ops.len() == mark_ops {
                continue; // panicked (reported) or the macro was empty in this state
            }
            let bytes = r.sut.bufs.snapshot();
            let key = state_key(&bytes, &r.model);
            let new = visited.insert(key);
            let mut blocked = false;
            if judged.insert(key) {
                // complete state oracle + probes of the hosting property
                let mut viol = vec![];
                oracle::state(&r.model, &r.sut, true, &mut viol);
                blocked = viol.iter().any(|v| v.prop == p.prop || v.prop == "C02" || v.prop == "C01");
                if !blocked {
                    st.states += 1;
                    let state = State { bytes, model: r.model.clone(), path: r.ops.clone() };
                    crate::probes::on_state(&state, cfg, &r.sut, &seq_params, &mut seq_stats, &mut viol);
                    r.sut.bufs.restore(&state.bytes);
                }
                if !viol.is_empty() {
                    let mut v2 = vec![];
                    for mut v in viol {
                        v.detail = format!("after macro history [{} ; {}]: {}", names.join(" ; "), m.short(), v.detail);
                        v2.push(v);
                    }
                    r.report(v2, col);
                }
            }
            if new && !blocked && depth < limit {
                names.push(m.short());
                stack.push(Frame { mark: r.mark(), next: 0 });
            }
        }
    }
    st.calls = r.calls;
    st
}

/// Run the macro search over several configurations on all cores: one job per
/// (configuration, first macro operation)
pub fn macro_all(cfgs: &[Config], p: &MacroParams) -> (MacroStats, Collector) {
    let total = std::sync::Mutex::new((MacroStats::default(), Collector::default()));
    let mut jobs: Vec<(usize, usize)> = vec![];
    for (ci, cfg) in cfgs.iter().enumerate() {
        for first in 0..alphabet_for(cfg, p).len() {
            jobs.push((ci, first));
        }
    }
    // largest configurations first (their jobs take longest)
    jobs.sort_by_key(|&(ci, _)| std::cmp::Reverse(cfgs[ci].frames));
    crate::dom::par_for(jobs.len(), |i| {
        let (ci, first) = jobs[i];
        let mut col = Collector::default();
        let s = macro_explore(&cfgs[ci], p, first, &mut col);
        let mut t = total.lock().unwrap();
        t.0.sequences += s.sequences;
        t.0.states += s.states;
        t.0.calls += s.calls;
        t.0.capped += s.capped;
        t.0.max_history_calls = t.0.max_history_calls.max(s.max_history_calls);
        t.0.depth = s.depth;
        t.1.merge(col);
    });
    let mut t = total.into_inner().unwrap();
    t.0.configs = cfgs.len() as u64;
    t
}

pub fn macro_configs(large: bool) -> Vec<Config> {
    let mut specs = vec![
        ClassingSpec::simple(1),
        ClassingSpec::zeroed([1, 1, 1], 1),
        ClassingSpec::movable(3),
    ];
    if large {
        specs.push(ClassingSpec::simple(2));
    }
    let mut frames = vec![2 * TREE_FRAMES + HUGE_FRAMES + 5];
    if large {
        frames.push(9 * TREE_FRAMES);
        frames.push(TREE_FRAMES);
    }
    let mut out = vec![];
    for &n in &frames {
        if llfree::HUGE_ORDER > 9 && n > 3 * TREE_FRAMES {
            continue;
        }
        for s in &specs {
            out.push(Config::new(n, s.clone(), InitMode::FreeAll));
            if large {
                out.push(Config::new(n, s.clone(), InitMode::AllocAll));
            }
        }
    }
    if !large {
        out.push(Config::new(frames[0], specs[0].clone(), InitMode::AllocAll));
        if llfree::HUGE_ORDER <= 9 {
            out.push(Config::new(9 * TREE_FRAMES, specs[1].clone(), InitMode::FreeAll));
        }
    }
    out
}

pub fn macro_coverage(st: &MacroStats) -> serde_json::Value {
    json!({"macro_engine": "MACRO: depth-first search over macro operations (allocate until OOM, take n, free all / every other / one tree, drain, offline/online) with in-place restore and state dedup; every basic call judged by the reference model, complete state oracle and the probes of the hosting property after every macro operation",
        "macro_configs": st.configs, "macro_sequences": st.sequences, "macro_states": st.states,
        "macro_basic_calls": st.calls, "macro_depth": st.depth, "macro_jobs_capped (one job = configuration x first macro operation; iterative deepening, so a capped job completed the shallower depths)": st.capped,
        "macro_longest_history_calls": st.max_history_calls})
}

/// C15 family: tree changes *by search* on allocators with more trees than any search
/// neighbourhood (9, 12, 17 and 33 trees). For every tree t: every other tree gets one
/// allocated frame, so that t is the only unreserved entirely free tree; offline by search
/// must take exactly t, a base allocation must not come from it, online by search must
/// bring it back, and the tree must be allocatable again.
pub fn change_by_search_family(col: &mut Collector) -> (u64, u64) {
    let mut histories = 0u64;
    let mut calls = 0u64;
    for trees in [9usize, 12, 17, 33] {
        if llfree::HUGE_ORDER > 9 && trees > 12 {
            continue;
        }
        for spec in [ClassingSpec::simple(1), ClassingSpec::zeroed([1, 1, 1], 1)] {
            let cfg = Config::new(trees * TREE_FRAMES, spec.clone(), InitMode::FreeAll);
            let Some(mut r) = Runner::new(&cfg) else { continue };
            let class = spec.natural_class(0);
            // one allocated frame in every tree (no slot: no reservation stays behind)
            let mut ok = true;
            for u in 0..trees {
                let get = Op::Get { order: 0, class, local: None, target: Some(u * TREE_FRAMES + 7) };
                ok &= matches!(r.quiet(get, col), Res::Got(..));
            }
            if !ok {
                continue;
            }
            let base = r.mark();
            for t in 0..trees {
                r.reset(&base);
                histories += 1;
                let put = Op::Put { frame: t * TREE_FRAMES + 7, order: 0, class, local: None };
                if r.call(put, false, col) != Res::Done {
                    continue;
                }
                let offline = Op::Change { id: None, mclass: None, mfree: TREE_FRAMES, class: None, op: Some(TreeOp::Offline) };
                if r.call(offline, false, col) != Res::Done {
                    continue;
                }
                // allocations of every kind while the tree is offline
                for (order, target) in [(0, None), (llfree::HUGE_ORDER, None), (0, Some(t * TREE_FRAMES + 64))] {
                    let c = spec.natural_class(order);
                    r.call(Op::Get { order, class: c, local: None, target }, false, col);
                }
                let online = Op::Change { id: None, mclass: None, mfree: 0, class: None, op: Some(TreeOp::Online) };
                if r.call(online, true, col) != Res::Done {
                    continue;
                }
                let tree_get = Op::Get { order: 0, class, local: None, target: Some(t * TREE_FRAMES + 64) };
                r.call(tree_get, true, col);
            }
            calls += r.calls;
        }
    }
    (histories, calls)
}
