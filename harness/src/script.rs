//! SCRIPT: bounded enumeration of parameterised call histories that are longer than the
//! breadth-first search of `seq.rs` reaches (5-6 calls), executed on the real allocator and
//! judged call by call with the same reference model and oracles (`oracle::step`,
//! `oracle::state`). A violation's replay artefact is an ordinary `seq` artefact (config +
//! operation list), so `run replay` re-executes it without the enumerator.
//!
//! Families:
//!  * cursor sweep: a slot's row cursor is moved to every huge frame (first / last row) of
//!    its reserved tree by a targeted allocation, the tree is freed again (through the slot,
//!    globally, or only partly), then one allocation of every order runs through the slot and
//!    one without slot.

use serde_json::json;

use llfree::{HUGE_FRAMES, TREE_FRAMES, TREE_HUGE, TREE_ORDER};

use crate::common::{ClassingSpec, Config, InitMode, Op, PolicyKind, Res, Sut};
use crate::model::Model;
use crate::oracle::{self, ClassTable, Violation};
use crate::report::Collector;

struct Runner {
    cfg: Config,
    sut: Sut,
    classes: ClassTable,
    model: Model,
    ops: Vec<Op>,
    /// number of calls executed and judged
    calls: u64,
}

struct Mark {
    bytes: Vec<u8>,
    model: Model,
    ops: usize,
}

impl Runner {
    fn new(cfg: &Config) -> Option<Self> {
        let sut = Sut::try_new(cfg, cfg.init.init(), true).ok()?;
        let classes = ClassTable::new(sut.policy);
        Some(Self {
            cfg: cfg.clone(),
            model: Model::new(cfg),
            sut,
            classes,
            ops: vec![],
            calls: 0,
        })
    }
    fn mark(&self) -> Mark {
        Mark {
            bytes: self.sut.bufs.snapshot(),
            model: self.model.clone(),
            ops: self.ops.len(),
        }
    }
    fn reset(&mut self, m: &Mark) {
        self.sut.bufs.restore(&m.bytes);
        self.model = m.model.clone();
        self.ops.truncate(m.ops);
    }
    /// Execute and judge one call; violations go to `col` with the history so far
    fn call(&mut self, op: Op, full: bool, col: &mut Collector) -> Res {
        let before = matches!(op, Op::Change { .. }).then(|| oracle::tree_view(&self.sut));
        let res = self.sut.apply(&op);
        self.ops.push(op.clone());
        self.calls += 1;
        let mut viol: Vec<Violation> = vec![];
        oracle::step(
            &mut self.model,
            &self.cfg,
            &self.classes,
            &op,
            &res,
            before.as_ref(),
            &self.sut,
            &mut viol,
        );
        if !res.is_panic() {
            oracle::state(&self.model, &self.sut, full, &mut viol);
        }
        for v in viol {
            let cfg = self.cfg.json();
            let ops: Vec<_> = self.ops.iter().map(|o| o.json()).collect();
            col.add(v, || json!({"engine": "seq", "config": cfg, "ops": ops, "family": "script"}));
        }
        res
    }
}

/// Returns (histories, calls)
pub fn cursor_family(col: &mut Collector) -> (u64, u64) {
    let rows_per_huge = HUGE_FRAMES / 64;
    let specs = [
        ClassingSpec::simple(1),
        ClassingSpec::movable(1),
        ClassingSpec::custom("single[(0,1)]", &[(0, 1)], 0, PolicyKind::Simple),
    ];
    let frames = [TREE_FRAMES, 2 * TREE_FRAMES + HUGE_FRAMES + 5];
    let mut histories = 0u64;
    let mut calls = 0u64;
    for &n in &frames {
        for spec in &specs {
            let cfg = Config::new(n, spec.clone(), InitMode::FreeAll);
            let Some(mut r) = Runner::new(&cfg) else { continue };
            let base = r.mark();
            for &(class, slots) in &spec.classes {
                if slots == 0 {
                    continue;
                }
                for child in 0..TREE_HUGE {
                    for row in [0, rows_per_huge - 1] {
                        r.reset(&base);
                        let get0 = Op::Get { order: 0, class, local: Some(0), target: None };
                        let Res::Got(f0, _) = r.call(get0, false, col) else { continue };
                        let tree = f0 / TREE_FRAMES;
                        let mut target = tree * TREE_FRAMES + child * HUGE_FRAMES + row * 64;
                        if target == f0 {
                            target += 1;
                        }
                        if target >= n {
                            continue;
                        }
                        let get1 = Op::Get { order: 0, class, local: Some(0), target: Some(target) };
                        let Res::Got(..) = r.call(get1, false, col) else { continue };
                        let cursor_set = r.mark();
                        // 0: free both through the slot, 1: free both without slot,
                        // 2: free only the first one through the slot (tree stays partly used)
                        for variant in 0..3 {
                            r.reset(&cursor_set);
                            let local = if variant == 1 { None } else { Some(0) };
                            let put0 = Op::Put { frame: f0, order: 0, class, local };
                            if r.call(put0, false, col) != Res::Done {
                                continue;
                            }
                            if variant != 2 {
                                let put1 = Op::Put { frame: target, order: 0, class, local };
                                if r.call(put1, false, col) != Res::Done {
                                    continue;
                                }
                            }
                            let freed = r.mark();
                            for order in 0..=TREE_ORDER {
                                for local in [Some(0), None] {
                                    r.reset(&freed);
                                    let get = Op::Get { order, class, local, target: None };
                                    r.call(get, true, col);
                                    histories += 1;
                                }
                            }
                        }
                    }
                }
            }
            calls += r.calls;
        }
    }
    (histories, calls)
}
