//! Enumerations outside the BFS: construction modes and degenerate configurations (C09)

use llfree::{HUGE_ORDER, Init};
use serde_json::json;

use crate::common::{ClassingSpec, Config, InitMode, Op, Res, Sut, TreeOp, panic_signature};
use crate::oracle::Violation;
use crate::report::Collector;

#[derive(Clone, Copy, Debug)]
pub enum Build {
    FreeAll,
    AllocAll,
    /// Recover over all-zero persistent bytes
    RecoverZero,
    /// Recover over all-one persistent bytes
    RecoverOnes,
    /// Recover over the bytes of a free-all / allocate-all instance
    RecoverFree,
    RecoverAlloc,
    /// Assume-initialised over the bytes of a free-all instance
    NoneFree,
}

pub const BUILDS: [Build; 7] = [
    Build::FreeAll,
    Build::AllocAll,
    Build::RecoverZero,
    Build::RecoverOnes,
    Build::RecoverFree,
    Build::RecoverAlloc,
    Build::NoneFree,
];

/// Build an allocator in the given mode; Err(res) for failing/panicking construction
pub fn build(frames: usize, spec: &ClassingSpec, b: Build) -> Result<Sut, Res> {
    let cfg = Config::new(frames, spec.clone(), InitMode::FreeAll);
    // the caller's buffers hold arbitrary bytes before an initialising construction
    let fill = [0u8, 0xff, 0x5a][(frames + spec.classes.len()) % 3];
    match b {
        Build::FreeAll => Sut::try_new_filled(&cfg, Init::FreeAll, true, fill),
        Build::AllocAll => Sut::try_new_filled(&cfg, Init::AllocAll, true, fill),
        Build::RecoverZero | Build::RecoverOnes => {
            let mut s = Sut::try_new(&cfg, Init::FreeAll, true)?;
            // volatile buffers hold arbitrary bytes after a crash
            s.bufs.local.fill(fill);
            s.bufs.trees.fill(fill);
            s.bufs
                .lower
                .fill(if matches!(b, Build::RecoverOnes) { 0xff } else { 0 });
            s.reinit(Init::Recover)?;
            Ok(s)
        }
        Build::RecoverFree | Build::RecoverAlloc => {
            let init = if matches!(b, Build::RecoverFree) {
                Init::FreeAll
            } else {
                Init::AllocAll
            };
            let mut s = Sut::try_new(&cfg, init, true)?;
            s.bufs.local.fill(0);
            s.bufs.trees.fill(0);
            s.reinit(Init::Recover)?;
            Ok(s)
        }
        Build::NoneFree => {
            let mut s = Sut::try_new(&cfg, Init::FreeAll, true)?;
            s.reinit(Init::None)?;
            Ok(s)
        }
    }
}

/// C09 extras: every construction mode x frame count (including 0) x classing, then one
/// call of every kind. Returns the number of calls executed.
pub fn c09_constructions(
    frames: &[usize],
    classings: &[ClassingSpec],
    col: &mut Collector,
) -> (u64, u64) {
    let mut calls = 0u64;
    let mut builds = 0u64;
    for &n in frames {
        for spec in classings {
            for b in BUILDS {
                builds += 1;
                let replay = |what: String| {
                    json!({"engine": "construct", "frames": n, "classing": spec.json(),
                        "build": format!("{b:?}"), "what": what})
                };
                let sut = match build(n, spec, b) {
                    Ok(s) => s,
                    Err(Res::Panic(msg)) => {
                        col.add(
                            Violation::new(
                                "C09",
                                format!("panic: {}", panic_signature(&msg)),
                                format!(
                                    "construction frames={n} {} {b:?} panicked: {msg}",
                                    spec.name
                                ),
                            ),
                            || replay("construction".into()),
                        );
                        continue;
                    }
                    Err(r) => {
                        col.add(
                            Violation::new(
                                "C09",
                                "construction with valid parameters failed",
                                format!("frames={n} {} {b:?} -> {}", spec.name, r.short()),
                            ),
                            || replay("construction".into()),
                        );
                        continue;
                    }
                };
                // one call of every kind
                let mut ops: Vec<Op> = vec![];
                for &(class, slots) in &spec.classes {
                    for order in [0usize, HUGE_ORDER] {
                        ops.push(Op::Get {
                            order,
                            class,
                            local: None,
                            target: None,
                        });
                        if slots > 0 {
                            ops.push(Op::Get {
                                order,
                                class,
                                local: Some(slots - 1),
                                target: None,
                            });
                        }
                    }
                }
                if n > 0 {
                    ops.push(Op::Get {
                        order: 0,
                        class: spec.classes[0].0,
                        local: None,
                        target: Some(n - 1),
                    });
                    ops.push(Op::Put {
                        frame: n - 1,
                        order: 0,
                        class: spec.classes[0].0,
                        local: None,
                    });
                    ops.push(Op::Put {
                        frame: 0,
                        order: 0,
                        class: spec.classes[0].0,
                        local: None,
                    });
                }
                ops.push(Op::Drain);
                for t in 0..sut.trees() {
                    for top in [None, Some(TreeOp::Offline), Some(TreeOp::Online)] {
                        ops.push(Op::Change {
                            id: Some(t),
                            mclass: None,
                            mfree: 0,
                            class: Some(spec.default),
                            op: top,
                        });
                    }
                }
                ops.push(Op::Change {
                    id: None,
                    mclass: None,
                    mfree: 0,
                    class: Some(spec.default),
                    op: None,
                });
                ops.push(Op::Queries);
                ops.push(Op::Drain);
                for op in &ops {
                    // queries index per tree; skip them for empty allocators only where
                    // they take a frame argument (in-range frames do not exist)
                    calls += 1;
                    let r = sut.apply(op);
                    if let Res::Panic(msg) = r {
                        col.add(
                            Violation::new(
                                "C09",
                                format!("panic: {}", panic_signature(&msg)),
                                format!(
                                    "frames={n} {} {b:?}: {} panicked: {msg}",
                                    spec.name,
                                    op.short()
                                ),
                            ),
                            || replay(op.short()),
                        );
                        break;
                    }
                }
            }
        }
    }
    (builds, calls)
}
