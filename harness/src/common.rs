//! Shared infrastructure: geometry, classing specs, guard-paged buffers, the
//! subject under test (real `LLFree` over raw buffers), snapshot/restore.

use std::panic::{AssertUnwindSafe, catch_unwind};

use llfree::{
    Alloc, Class, Classing, Error, FrameId, HUGE_FRAMES, HUGE_ORDER, Init, LLFree, MetaData,
    MetaSize, Policy, PolicyFn, Request, TREE_FRAMES, TREE_HUGE, TREE_ORDER, TreeChange, TreeId,
    TreeMatch, TreeOperation,
};

pub const PAGE: usize = 4096;

/// Stack size of engine worker threads: a runaway recursion of the subject must hit its
/// step budget (a verdict) before it overflows the stack (a machinery crash)
pub const WORKER_STACK: usize = 512 << 20;

pub fn geometry_name() -> String {
    format!(
        "huge_order={} tree_huge={} tree_frames={}",
        HUGE_ORDER, TREE_HUGE, TREE_FRAMES
    )
}

// ---------------------------------------------------------------------------
// Policies
// ---------------------------------------------------------------------------

/// The policy of `eval/tests/integration.rs::zeroed_steals_from_huge` (verbatim).
pub fn zeroed_policy(requested: Class, target: Class, free: usize) -> Policy {
    if requested.0 > target.0 {
        return Policy::Steal;
    } else if requested.0 < target.0 {
        return Policy::Demote;
    }
    match free {
        f if f >= TREE_FRAMES / 2 => Policy::Match(1),
        f if f >= TREE_FRAMES / 64 => Policy::Match(u8::MAX),
        _ => Policy::Match(0),
    }
}

/// Custom policy declaring the class pairs (0,2) and (2,0) unusable, otherwise
/// ordered like the built-in ones.
pub fn invalid_policy(requested: Class, target: Class, free: usize) -> Policy {
    if (requested.0 == 0 && target.0 == 2) || (requested.0 == 2 && target.0 == 0) {
        return Policy::Invalid;
    }
    zeroed_policy(requested, target, free)
}

#[derive(Clone, Debug, PartialEq, Eq, Hash)]
pub enum PolicyKind {
    Simple,
    Movable,
    Zeroed,
    InvalidPairs,
}

#[derive(Clone, Debug, PartialEq, Eq, Hash)]
pub struct ClassingSpec {
    pub name: String,
    pub classes: Vec<(u8, usize)>,
    pub default: u8,
    pub policy: PolicyKind,
}

impl ClassingSpec {
    pub fn simple(n: usize) -> Self {
        Self {
            name: format!("simple({n})"),
            classes: vec![(0, n), (1, n)],
            default: 1,
            policy: PolicyKind::Simple,
        }
    }
    pub fn movable(n: usize) -> Self {
        Self {
            name: format!("movable({n})"),
            classes: vec![(0, n), (1, n), (2, n)],
            default: 2,
            policy: PolicyKind::Movable,
        }
    }
    pub fn zeroed(slots: [usize; 3], default: u8) -> Self {
        Self {
            name: format!("zeroed({slots:?},d{default})"),
            classes: vec![(0, slots[0]), (1, slots[1]), (2, slots[2])],
            default,
            policy: PolicyKind::Zeroed,
        }
    }
    pub fn custom(name: &str, classes: &[(u8, usize)], default: u8, policy: PolicyKind) -> Self {
        Self {
            name: name.to_string(),
            classes: classes.to_vec(),
            default,
            policy,
        }
    }
    pub fn policy_fn(&self) -> PolicyFn {
        match self.policy {
            PolicyKind::Simple => Classing::simple(1).0.policy,
            PolicyKind::Movable => Classing::movable(1).0.policy,
            PolicyKind::Zeroed => zeroed_policy,
            PolicyKind::InvalidPairs => invalid_policy,
        }
    }
    pub fn build(&self) -> Classing {
        let classes: Vec<(Class, usize)> =
            self.classes.iter().map(|&(c, n)| (Class(c), n)).collect();
        Classing::new(&classes, Class(self.default), self.policy_fn())
    }
    pub fn slots(&self, class: u8) -> Option<usize> {
        self.classes.iter().find(|c| c.0 == class).map(|c| c.1)
    }
    pub fn never_invalid(&self) -> bool {
        self.policy != PolicyKind::InvalidPairs
    }
    /// The class a request of `order` naturally uses under this classing
    pub fn natural_class(&self, order: usize) -> u8 {
        let c = self.natural_class_raw(order);
        // custom classings may not configure the class the policy family would use
        if self.slots(c).is_some() { c } else { self.classes[0].0 }
    }
    fn natural_class_raw(&self, order: usize) -> u8 {
        let huge = order >= HUGE_ORDER;
        match self.policy {
            PolicyKind::Simple => huge as u8,
            PolicyKind::Movable => {
                if huge {
                    2
                } else {
                    0
                }
            }
            PolicyKind::Zeroed | PolicyKind::InvalidPairs => {
                if huge && self.slots(1).is_some() {
                    1
                } else {
                    self.classes[0].0
                }
            }
        }
    }
}

// ---------------------------------------------------------------------------
// Guard-paged buffers
// ---------------------------------------------------------------------------

/// A byte buffer of exactly `len` bytes placed between two `PROT_NONE` pages.
/// `flush_end`: the buffer ends exactly at the trailing guard page, otherwise
/// it starts directly after the leading guard page.
pub struct GuardBuf {
    map: *mut u8,
    map_len: usize,
    slots: [usize; 2],
    pub ptr: *mut u8,
    pub len: usize,
}
unsafe impl Send for GuardBuf {}
unsafe impl Sync for GuardBuf {}


impl GuardBuf {
    pub fn new(len: usize, flush_end: bool) -> Self {
        let pages = len.div_ceil(PAGE).max(1);
        let map_len = (pages + 2) * PAGE;
        let map = unsafe {
            libc::mmap(
                core::ptr::null_mut(),
                map_len,
                libc::PROT_READ | libc::PROT_WRITE,
                libc::MAP_PRIVATE | libc::MAP_ANONYMOUS,
                -1,
                0,
            )
        };
        assert!(map != libc::MAP_FAILED, "mmap failed");
        let map = map.cast::<u8>();
        unsafe {
            assert_eq!(libc::mprotect(map.cast(), PAGE, libc::PROT_NONE), 0);
            assert_eq!(
                libc::mprotect(map.add((pages + 1) * PAGE).cast(), PAGE, libc::PROT_NONE),
                0
            );
        }
        let slots = [
            crate::guard::register(map as usize, map as usize + PAGE),
            crate::guard::register(
                map as usize + (pages + 1) * PAGE,
                map as usize + (pages + 2) * PAGE,
            ),
        ];
        let ptr = if flush_end {
            // only 64-byte aligned ends are possible (buffer start must be 64 aligned)
            let end = unsafe { map.add((pages + 1) * PAGE) };
            let start = (end as usize - len) & !63usize;
            start as *mut u8
        } else {
            unsafe { map.add(PAGE) }
        };
        Self {
            map,
            map_len,
            slots,
            ptr,
            len,
        }
    }
    pub fn slice(&self) -> &[u8] {
        unsafe { std::slice::from_raw_parts(self.ptr, self.len) }
    }
    #[allow(clippy::mut_from_ref)]
    pub unsafe fn slice_mut(&self) -> &'static mut [u8] {
        unsafe { std::slice::from_raw_parts_mut(self.ptr, self.len) }
    }
    pub fn contains(&self, addr: usize, size: usize) -> bool {
        addr >= self.ptr as usize && addr + size <= self.ptr as usize + self.len
    }
    pub fn fill(&self, v: u8) {
        unsafe { std::ptr::write_bytes(self.ptr, v, self.len) }
    }
}
impl Drop for GuardBuf {
    fn drop(&mut self) {
        crate::guard::unregister(self.slots[0]);
        crate::guard::unregister(self.slots[1]);
        unsafe { libc::munmap(self.map.cast(), self.map_len) };
    }
}

// ---------------------------------------------------------------------------
// Configuration and subject under test
// ---------------------------------------------------------------------------

#[derive(Clone, Copy, Debug, PartialEq, Eq, Hash)]
pub enum InitMode {
    FreeAll,
    AllocAll,
}
impl InitMode {
    pub fn init(self) -> Init {
        match self {
            Self::FreeAll => Init::FreeAll,
            Self::AllocAll => Init::AllocAll,
        }
    }
}

#[derive(Clone, Debug, PartialEq, Eq, Hash)]
pub struct Config {
    pub frames: usize,
    pub classing: ClassingSpec,
    pub init: InitMode,
}
impl Config {
    pub fn new(frames: usize, classing: ClassingSpec, init: InitMode) -> Self {
        Self {
            frames,
            classing,
            init,
        }
    }
    pub fn trees(&self) -> usize {
        self.frames.div_ceil(TREE_FRAMES)
    }
    pub fn describe(&self) -> String {
        format!(
            "frames={} classing={} init={:?}",
            self.frames, self.classing.name, self.init
        )
    }
}

/// The three metadata buffers
pub struct Bufs {
    pub local: GuardBuf,
    pub trees: GuardBuf,
    pub lower: GuardBuf,
}
impl Bufs {
    pub fn new(ms: &MetaSize, flush_end: bool) -> Self {
        Self {
            local: GuardBuf::new(ms.local, flush_end),
            trees: GuardBuf::new(ms.trees, flush_end),
            lower: GuardBuf::new(ms.lower, flush_end),
        }
    }
    pub fn total(&self) -> usize {
        self.local.len + self.trees.len + self.lower.len
    }
    pub fn snapshot_into(&self, out: &mut Vec<u8>) {
        out.clear();
        out.extend_from_slice(self.local.slice());
        out.extend_from_slice(self.trees.slice());
        out.extend_from_slice(self.lower.slice());
    }
    pub fn snapshot(&self) -> Vec<u8> {
        let mut v = Vec::with_capacity(self.total());
        self.snapshot_into(&mut v);
        v
    }
    pub fn restore(&self, bytes: &[u8]) {
        assert_eq!(bytes.len(), self.total());
        unsafe {
            let mut off = 0;
            for b in [&self.local, &self.trees, &self.lower] {
                std::ptr::copy_nonoverlapping(bytes.as_ptr().add(off), b.ptr, b.len);
                off += b.len;
            }
        }
    }
    pub fn which(&self, addr: usize, size: usize) -> Option<Region> {
        if self.lower.contains(addr, size) {
            Some(Region::Lower)
        } else if self.trees.contains(addr, size) {
            Some(Region::Trees)
        } else if self.local.contains(addr, size) {
            Some(Region::Local)
        } else {
            None
        }
    }
    unsafe fn meta(&self) -> MetaData<'static> {
        unsafe {
            MetaData {
                local: self.local.slice_mut(),
                trees: self.trees.slice_mut(),
                lower: self.lower.slice_mut(),
            }
        }
    }
}

#[derive(Clone, Copy, Debug, PartialEq, Eq)]
pub enum Region {
    Local,
    Trees,
    Lower,
}

/// Result of one call on the subject
#[derive(Clone, Debug, PartialEq, Eq, Hash)]
pub enum Res {
    /// Successful allocation: frame, class
    Got(usize, u8),
    /// Successful free / tree change / drain
    Done,
    Err(ErrKind),
    Panic(String),
}
#[derive(Clone, Copy, Debug, PartialEq, Eq, Hash)]
pub enum ErrKind {
    Memory,
    Argument,
    Initialization,
}
impl From<Error> for ErrKind {
    fn from(e: Error) -> Self {
        match e {
            Error::Memory => Self::Memory,
            Error::Argument => Self::Argument,
            Error::Initialization => Self::Initialization,
        }
    }
}
impl Res {
    pub fn is_panic(&self) -> bool {
        matches!(self, Self::Panic(_))
    }
    pub fn short(&self) -> String {
        match self {
            Self::Got(f, c) => format!("Ok({f},C{c})"),
            Self::Done => "Ok".into(),
            Self::Err(e) => format!("Err({e:?})"),
            Self::Panic(m) => format!("PANIC[{m}]"),
        }
    }
}

/// Abstract, fully resolved operation on an allocator
#[derive(Clone, Debug, PartialEq, Eq, Hash)]
pub enum Op {
    Get {
        order: usize,
        class: u8,
        local: Option<usize>,
        target: Option<usize>,
    },
    Put {
        frame: usize,
        order: usize,
        class: u8,
        local: Option<usize>,
    },
    Drain,
    Change {
        id: Option<usize>,
        mclass: Option<u8>,
        mfree: usize,
        class: Option<u8>,
        op: Option<TreeOp>,
    },
    /// Queries (no effect expected): validate, stats, Debug formatting
    Validate,
    Queries,
}
#[derive(Clone, Copy, Debug, PartialEq, Eq, Hash)]
pub enum TreeOp {
    Online,
    Offline,
}

impl Op {
    pub fn short(&self) -> String {
        fn l(l: &Option<usize>) -> String {
            match l {
                Some(i) => format!("s{i}"),
                None => "s-".into(),
            }
        }
        match self {
            Op::Get {
                order,
                class,
                local,
                target,
            } => match target {
                Some(t) => format!("get(o{order},C{class},{},@{t})", l(local)),
                None => format!("get(o{order},C{class},{})", l(local)),
            },
            Op::Put {
                frame,
                order,
                class,
                local,
            } => format!("put({frame},o{order},C{class},{})", l(local)),
            Op::Drain => "drain".into(),
            Op::Change {
                id,
                mclass,
                mfree,
                class,
                op,
            } => format!(
                "change(id={id:?},mc={mclass:?},mf={mfree},c={class:?},{op:?})"
            ),
            Op::Validate => "validate".into(),
            Op::Queries => "queries".into(),
        }
    }
    pub fn to_json(&self) -> serde_json::Value {
        serde_json::Value::String(self.short())
    }
}

/// The real allocator over guard-paged buffers
pub struct Sut {
    pub cfg: Config,
    pub bufs: Bufs,
    pub alloc: LLFree<'static>,
    pub policy: PolicyFn,
}

/// Message of a caught panic
pub fn panic_msg(e: Box<dyn std::any::Any + Send>) -> String {
    let m = if let Some(s) = e.downcast_ref::<&str>() {
        s.to_string()
    } else if let Some(s) = e.downcast_ref::<String>() {
        s.clone()
    } else {
        "<non-string panic>".to_string()
    };
    // attach location recorded by the panic hook (if any)
    let loc = LAST_PANIC_LOC.with(|l| l.borrow_mut().take());
    match loc {
        Some(loc) => format!("{m} @ {loc}"),
        None => m,
    }
}

thread_local! {
    pub static LAST_PANIC_LOC: std::cell::RefCell<Option<String>> = const { std::cell::RefCell::new(None) };
    /// > 0 while a call of the subject runs under `catch`: its panics are verdicts and are
    /// not printed; every other panic is a machinery error and is printed.
    pub static EXPECT_PANIC: std::cell::Cell<u32> = const { std::cell::Cell::new(0) };
}

/// Progress counter for the watchdog
pub static PROGRESS: std::sync::atomic::AtomicU64 = std::sync::atomic::AtomicU64::new(0);

/// Run one call of the subject with a step budget on its hooked atomic operations: a
/// call that loops forever on its own ends in a panic that is reported as a verdict.
pub fn catch_call<R>(f: impl FnOnce() -> R) -> Result<R, String> {
    PROGRESS.fetch_add(1, std::sync::atomic::Ordering::Relaxed);
    let tmp = crate::hook::begin_call();
    let r = catch(f);
    crate::hook::end_call(tmp);
    r
}

/// Terminate the process if no call of the subject completes for a long time (a hang
/// without atomic operations cannot be attributed; exit 2 = machinery, never a verdict)
pub fn start_watchdog(secs: u64) {
    std::thread::spawn(move || {
        let mut last = PROGRESS.load(std::sync::atomic::Ordering::Relaxed);
        let mut idle = 0u64;
        loop {
            std::thread::sleep(std::time::Duration::from_secs(10));
            let now = PROGRESS.load(std::sync::atomic::Ordering::Relaxed);
            if now == last {
                idle += 10;
                if idle >= secs {
                    eprintln!("MACHINERY ERROR: no call of the subject completed for {idle}s (hang)");
                    std::process::exit(2);
                }
            } else {
                idle = 0;
                last = now;
            }
        }
    });
}

/// Run `f` (a call into the subject) catching its panic as a message
pub fn catch<R>(f: impl FnOnce() -> R) -> Result<R, String> {
    EXPECT_PANIC.with(|c| c.set(c.get() + 1));
    let r = catch_unwind(AssertUnwindSafe(f));
    EXPECT_PANIC.with(|c| c.set(c.get() - 1));
    r.map_err(panic_msg)
}

/// Install a quiet panic hook that records file (without line drift: file:line kept
/// separately) of the panic in a thread local.
pub fn install_panic_hook() {
    std::panic::set_hook(Box::new(|info| {
        let loc = info
            .location()
            .map(|l| format!("{}:{}", l.file(), l.line()));
        if EXPECT_PANIC.with(|c| c.get()) == 0 || std::env::var("VERIF_DEBUG_PANICS").is_ok() {
            eprintln!("MACHINERY PANIC: {info}");
        }
        LAST_PANIC_LOC.with(|l| *l.borrow_mut() = loc);
    }));
}

/// Normalised signature of a panic message: message text without numbers that drift
/// (line numbers, frame ids) + source file.
pub fn panic_signature(msg: &str) -> String {
    // "text @ file:line" -> "text-without-digits @ file"
    let (text, loc) = match msg.rsplit_once(" @ ") {
        Some((t, l)) => (t, l),
        None => (msg, ""),
    };
    let file = loc.rsplit_once(':').map(|(f, _)| f).unwrap_or(loc);
    let file = file.rsplit('/').next().unwrap_or(file);
    let mut t = String::new();
    let mut last_hash = false;
    for ch in text.chars() {
        if ch.is_ascii_digit() {
            if !last_hash {
                t.push('#');
            }
            last_hash = true;
        } else {
            t.push(ch);
            last_hash = false;
        }
    }
    let t: String = t.chars().take(80).collect();
    format!("{t} @ {file}")
}

impl Sut {
    /// Build the allocator for `cfg` (with `init` possibly overridden), catching panics.
    pub fn try_new(cfg: &Config, init: Init, flush_end: bool) -> Result<Self, Res> {
        Self::try_new_filled(cfg, init, flush_end, 0)
    }

    /// Like `try_new`, but the buffers hold `fill` bytes before construction (an
    /// initialising mode must not depend on what the caller's memory contained)
    pub fn try_new_filled(cfg: &Config, init: Init, flush_end: bool, fill: u8) -> Result<Self, Res> {
        let classing = cfg.classing.build();
        let ms = LLFree::metadata_size(&classing, cfg.frames);
        let bufs = Bufs::new(&ms, flush_end);
        if fill != 0 {
            bufs.local.fill(fill);
            bufs.trees.fill(fill);
            bufs.lower.fill(fill);
        }
        Self::try_with_bufs(cfg, init, bufs)
    }

    pub fn try_with_bufs(cfg: &Config, init: Init, bufs: Bufs) -> Result<Self, Res> {
        let classing = cfg.classing.build();
        let policy = classing.policy;
        let meta = unsafe { bufs.meta() };
        let r = catch_call(|| LLFree::new(cfg.frames, init, &classing, meta));
        match r {
            Ok(Ok(alloc)) => Ok(Self {
                cfg: cfg.clone(),
                bufs,
                alloc,
                policy,
            }),
            Ok(Err(e)) => Err(Res::Err(e.into())),
            Err(p) => Err(Res::Panic(p)),
        }
    }

    /// Construct a new allocator instance over the same buffers (e.g. `Init::Recover`
    /// or `Init::None`), replacing the current one.
    pub fn reinit(&mut self, init: Init) -> Result<(), Res> {
        let classing = self.cfg.classing.build();
        let meta = unsafe { self.bufs.meta() };
        let frames = self.cfg.frames;
        match catch_call(|| LLFree::new(frames, init, &classing, meta)) {
            Ok(Ok(alloc)) => {
                self.alloc = alloc;
                Ok(())
            }
            Ok(Err(e)) => Err(Res::Err(e.into())),
            Err(p) => Err(Res::Panic(p)),
        }
    }

    pub fn new(cfg: &Config) -> Self {
        match Self::try_new(cfg, cfg.init.init(), true) {
            Ok(s) => s,
            Err(r) => panic!("construction failed for {}: {}", cfg.describe(), r.short()),
        }
    }

    /// Apply `op`, catching panics
    pub fn apply(&self, op: &Op) -> Res {
        match catch_call(|| self.apply_raw(op)) {
            Ok(r) => r,
            Err(p) => Res::Panic(p),
        }
    }

    /// Apply `op` without catching panics (used inside coroutines that catch themselves)
    pub fn apply_raw(&self, op: &Op) -> Res {
        match op {
            Op::Get {
                order,
                class,
                local,
                target,
            } => {
                let req = Request::new(*order, Class(*class), *local);
                match self.alloc.get(target.map(FrameId), req) {
                    Ok((f, c)) => Res::Got(f.0, c.0),
                    Err(e) => Res::Err(e.into()),
                }
            }
            Op::Put {
                frame,
                order,
                class,
                local,
            } => {
                let req = Request::new(*order, Class(*class), *local);
                match self.alloc.put(FrameId(*frame), req) {
                    Ok(()) => Res::Done,
                    Err(e) => Res::Err(e.into()),
                }
            }
            Op::Drain => {
                self.alloc.drain();
                Res::Done
            }
            Op::Change {
                id,
                mclass,
                mfree,
                class,
                op,
            } => {
                let m = TreeMatch {
                    id: id.map(TreeId),
                    class: mclass.map(Class),
                    free: *mfree,
                };
                let c = TreeChange {
                    class: class.map(Class),
                    operation: op.map(|o| match o {
                        TreeOp::Online => TreeOperation::Online,
                        TreeOp::Offline => TreeOperation::Offline,
                    }),
                };
                match self.alloc.change_tree(m, c) {
                    Ok(()) => Res::Done,
                    Err(e) => Res::Err(e.into()),
                }
            }
            Op::Validate => {
                self.alloc.validate();
                Res::Done
            }
            Op::Queries => {
                let _ = self.alloc.stats();
                let _ = self.alloc.tree_stats();
                let _ = self.alloc.frames();
                for t in 0..self.cfg.trees() {
                    let _ = self.alloc.trees.stats_at(TreeId(t));
                    let _ = self.alloc.stats_at(FrameId(t * TREE_FRAMES), TREE_ORDER);
                    let _ = self.alloc.stats_at(FrameId(t * TREE_FRAMES), HUGE_ORDER);
                    let _ = self.alloc.stats_at(FrameId(t * TREE_FRAMES), 0);
                }
                let _ = format!("{:?}", self.alloc);
                Res::Done
            }
        }
    }

    pub fn trees(&self) -> usize {
        self.cfg.trees()
    }
    pub fn huges(&self) -> usize {
        self.cfg.frames.div_ceil(HUGE_FRAMES)
    }
}

// ---------------------------------------------------------------------------
// JSON (replay artefacts)
// ---------------------------------------------------------------------------
use serde_json::{Value, json};

fn opt_usize(v: &Value) -> Option<usize> {
    v.as_u64().map(|x| x as usize)
}

impl Op {
    pub fn json(&self) -> Value {
        match self {
            Op::Get {
                order,
                class,
                local,
                target,
            } => json!({"op":"get","order":order,"class":class,"local":local,"target":target}),
            Op::Put {
                frame,
                order,
                class,
                local,
            } => json!({"op":"put","frame":frame,"order":order,"class":class,"local":local}),
            Op::Drain => json!({"op":"drain"}),
            Op::Change {
                id,
                mclass,
                mfree,
                class,
                op,
            } => json!({"op":"change","id":id,"mclass":mclass,"mfree":mfree,"class":class,
                "tree_op": op.map(|o| match o { TreeOp::Online => "online", TreeOp::Offline => "offline" })}),
            Op::Validate => json!({"op":"validate"}),
            Op::Queries => json!({"op":"queries"}),
        }
    }
    pub fn from_json(v: &Value) -> Option<Op> {
        let kind = v.get("op")?.as_str()?;
        Some(match kind {
            "get" => Op::Get {
                order: opt_usize(&v["order"])?,
                class: opt_usize(&v["class"])? as u8,
                local: opt_usize(&v["local"]),
                target: opt_usize(&v["target"]),
            },
            "put" => Op::Put {
                frame: opt_usize(&v["frame"])?,
                order: opt_usize(&v["order"])?,
                class: opt_usize(&v["class"])? as u8,
                local: opt_usize(&v["local"]),
            },
            "drain" => Op::Drain,
            "change" => Op::Change {
                id: opt_usize(&v["id"]),
                mclass: opt_usize(&v["mclass"]).map(|x| x as u8),
                mfree: opt_usize(&v["mfree"])?,
                class: opt_usize(&v["class"]).map(|x| x as u8),
                op: match v["tree_op"].as_str() {
                    Some("online") => Some(TreeOp::Online),
                    Some("offline") => Some(TreeOp::Offline),
                    _ => None,
                },
            },
            "validate" => Op::Validate,
            "queries" => Op::Queries,
            _ => return None,
        })
    }
}

impl ClassingSpec {
    pub fn json(&self) -> Value {
        json!({"name": self.name, "classes": self.classes, "default": self.default,
            "policy": format!("{:?}", self.policy)})
    }
    pub fn from_json(v: &Value) -> Option<Self> {
        let classes = v["classes"]
            .as_array()?
            .iter()
            .map(|c| Some((c[0].as_u64()? as u8, c[1].as_u64()? as usize)))
            .collect::<Option<Vec<_>>>()?;
        let policy = match v["policy"].as_str()? {
            "Simple" => PolicyKind::Simple,
            "Movable" => PolicyKind::Movable,
            "Zeroed" => PolicyKind::Zeroed,
            "InvalidPairs" => PolicyKind::InvalidPairs,
            _ => return None,
        };
        Some(Self {
            name: v["name"].as_str()?.to_string(),
            classes,
            default: v["default"].as_u64()? as u8,
            policy,
        })
    }
}

impl Config {
    pub fn json(&self) -> Value {
        json!({"frames": self.frames, "classing": self.classing.json(),
            "init": format!("{:?}", self.init)})
    }
    pub fn from_json(v: &Value) -> Option<Self> {
        Some(Self {
            frames: v["frames"].as_u64()? as usize,
            classing: ClassingSpec::from_json(&v["classing"])?,
            init: match v["init"].as_str()? {
                "FreeAll" => InitMode::FreeAll,
                "AllocAll" => InitMode::AllocAll,
                _ => return None,
            },
        })
    }
}

pub fn geometry_features() -> Vec<&'static str> {
    let mut f = vec![];
    if cfg!(feature = "16K") {
        f.push("16K");
    }
    if cfg!(feature = "tree_huge_1") {
        f.push("tree_huge_1");
    }
    if cfg!(feature = "tree_huge_2") {
        f.push("tree_huge_2");
    }
    if cfg!(feature = "tree_huge_4") {
        f.push("tree_huge_4");
    }
    if cfg!(feature = "tree_huge_8") {
        f.push("tree_huge_8");
    }
    f
}

/// 128 bit hash of a byte slice and an extra 64 bit value (two independent 64 bit FNV/mix passes)
pub fn hash128(bytes: &[u8], extra: u64) -> u128 {
    let mut h1: u64 = 0xcbf2_9ce4_8422_2325 ^ extra;
    let mut h2: u64 = 0x9E37_79B9_7F4A_7C15 ^ extra.rotate_left(17);
    let mut chunks = bytes.chunks_exact(8);
    for c in &mut chunks {
        let w = u64::from_le_bytes(c.try_into().unwrap());
        h1 = (h1 ^ w).wrapping_mul(0x0000_0100_0000_01B3);
        h1 ^= h1 >> 29;
        h2 = (h2.rotate_left(5) ^ w).wrapping_mul(0xff51_afd7_ed55_8ccd);
        h2 ^= h2 >> 32;
    }
    for &b in chunks.remainder() {
        h1 = (h1 ^ b as u64).wrapping_mul(0x0000_0100_0000_01B3);
        h2 = (h2.rotate_left(5) ^ b as u64).wrapping_mul(0xff51_afd7_ed55_8ccd);
    }
    h1 ^= bytes.len() as u64;
    ((h1 as u128) << 64) | h2 as u128
}
