//! Violations, known findings, replay artefacts and evidence files.

use std::collections::BTreeMap;
use std::path::{Path, PathBuf};

use serde_json::{Map, Value, json};

use crate::oracle::Violation;

pub fn verif_root() -> PathBuf {
    std::env::var("VERIF_ROOT")
        .map(PathBuf::from)
        .unwrap_or_else(|_| PathBuf::from("/verif"))
}

pub fn seed() -> u64 {
    std::env::var("VERIF_SEED")
        .ok()
        .and_then(|s| s.parse().ok())
        .unwrap_or(0)
}

/// A violation with everything needed to replay it
#[derive(Clone, Debug)]
pub struct Found {
    pub v: Violation,
    /// replay artefact (engine specific JSON)
    pub replay: Value,
    pub count: u64,
}

/// Open findings from /verif/known_findings.json
#[derive(Clone, Debug)]
pub struct Known {
    pub property: String,
    /// substring that must occur in the violation clause
    pub clause: String,
    pub what: String,
}

pub fn load_known() -> Vec<Known> {
    let p = verif_root().join("known_findings.json");
    let Ok(s) = std::fs::read_to_string(&p) else {
        return vec![];
    };
    let v: Value = serde_json::from_str(&s).expect("known_findings.json is not valid JSON");
    let mut out = vec![];
    if let Some(open) = v.get("open").and_then(|o| o.as_array()) {
        for e in open {
            out.push(Known {
                property: e["property"].as_str().unwrap_or("").to_string(),
                clause: e["clause"].as_str().unwrap_or("").to_string(),
                what: e["what"].as_str().unwrap_or("").to_string(),
            });
        }
    }
    out
}

/// Collects violations per (property, clause), keeps the first (shortest) witness
#[derive(Default)]
pub struct Collector {
    pub found: BTreeMap<(String, String), Found>,
}
impl Collector {
    pub fn add(&mut self, v: Violation, replay: impl FnOnce() -> Value) {
        let key = (v.prop.to_string(), v.clause.clone());
        match self.found.get_mut(&key) {
            Some(f) => f.count += 1,
            None => {
                self.found.insert(
                    key,
                    Found {
                        v,
                        replay: replay(),
                        count: 1,
                    },
                );
            }
        }
    }
    pub fn merge(&mut self, other: Collector) {
        for (k, f) in other.found {
            match self.found.get_mut(&k) {
                Some(e) => e.count += f.count,
                None => {
                    self.found.insert(k, f);
                }
            }
        }
    }
    pub fn is_empty(&self) -> bool {
        self.found.is_empty()
    }
}

/// Outcome of one check run
pub struct Outcome {
    pub prop: String,
    pub tier: String,
    pub level: &'static str,
    pub coverage: Map<String, Value>,
    pub assumptions: Vec<String>,
    pub collector: Collector,
    pub wall_s: f64,
}

fn fnv(s: &str) -> u64 {
    let mut h: u64 = 0xcbf2_9ce4_8422_2325;
    for b in s.bytes() {
        h = (h ^ b as u64).wrapping_mul(0x0000_0100_0000_01B3);
    }
    h
}

/// Finish a run: classify violations, write replays + partial evidence, print the
/// verdict lines. Returns the process exit code.
pub fn finish(mut o: Outcome, out_path: Option<&Path>) -> i32 {
    let known = load_known();
    let root = verif_root();
    let mut violations = 0;
    let mut known_hits: Vec<Value> = vec![];
    let mut elsewhere: BTreeMap<String, u64> = BTreeMap::new();
    let mut lines: Vec<String> = vec![];
    let mut viol_json: Vec<Value> = vec![];
    for ((prop, clause), f) in &o.collector.found {
        if *prop != o.prop {
            *elsewhere.entry(format!("{prop}: {clause}")).or_default() += f.count;
            continue;
        }
        if let Some(k) = known
            .iter()
            .find(|k| k.property == *prop && clause.contains(&k.clause))
        {
            lines.push(format!("KNOWN-FINDING: property={prop} {}", k.what));
            known_hits.push(json!({"clause": clause, "what": k.what, "executions": f.count}));
            continue;
        }
        violations += 1;
        let dir = root.join("replays").join(prop);
        let _ = std::fs::create_dir_all(&dir);
        let name = format!("{:016x}.json", fnv(&format!("{clause}{}", f.replay)));
        let path = dir.join(name);
        let mut rep = f.replay.clone();
        if let Some(m) = rep.as_object_mut() {
            m.insert("property".into(), json!(prop));
            m.insert("clause".into(), json!(clause));
            m.insert("detail".into(), json!(f.v.detail));
            m.insert(
                "geometry_features".into(),
                json!(crate::common::geometry_features()),
            );
        }
        let _ = std::fs::write(&path, serde_json::to_string_pretty(&rep).unwrap());
        lines.push(format!(
            "VIOLATION property={prop} replay={}",
            path.display()
        ));
        eprintln!("  clause: {clause}\n  detail: {}", f.v.detail);
        viol_json.push(json!({"clause": clause, "detail": f.v.detail, "count": f.count,
            "replay": path.display().to_string()}));
    }
    // de-duplicate KNOWN-FINDING lines
    lines.sort();
    lines.dedup();
    for l in &lines {
        println!("{l}");
    }
    o.coverage
        .insert("known_findings_reproduced".into(), json!(known_hits));
    o.coverage.insert(
        "violations_attributed_to_other_properties".into(),
        json!(elsewhere),
    );
    o.coverage.insert("violation_list".into(), json!(viol_json));
    o.coverage
        .insert("geometry".into(), json!(crate::common::geometry_name()));
    let ev = json!({
        "property_id": o.prop,
        "tier": o.tier,
        "seed": seed(),
        "level": o.level,
        "coverage": o.coverage,
        "assumptions": o.assumptions,
        "wall_s": o.wall_s,
        "violations": violations,
    });
    let path = match out_path {
        Some(p) => p.to_path_buf(),
        None => root.join("evidence").join(format!("{}.json", o.prop)),
    };
    if let Some(d) = path.parent() {
        let _ = std::fs::create_dir_all(d);
    }
    std::fs::write(&path, serde_json::to_string_pretty(&ev).unwrap()).expect("write evidence");
    if let Some(((_, clause), f)) = o.collector.found.iter().find(|((p, _), _)| p == "MACHINERY") {
        eprintln!("MACHINERY ERROR: {clause}: {}", f.v.detail);
        return 2;
    }
    if violations > 0 { 1 } else { 0 }
}
