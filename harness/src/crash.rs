//! CRASH: crash-point enumeration and the recovery oracle of C05 (DESIGN §4.3).

use std::cell::RefCell;
use std::collections::HashSet;
use std::hash::{Hash, Hasher};

use llfree::{Alloc, FrameId, Init};

use crate::common::{Config, Op, Res, Sut, hash128};
use crate::hook::{self, Ctx, Mode};
use crate::model::{FREE, Model};
use crate::oracle::Violation;

thread_local! {
    static LOG: RefCell<Vec<Vec<u8>>> = const { RefCell::new(Vec::new()) };
}

/// Start logging: a snapshot of the persistent (lower) buffer is taken before every
/// potentially writing atomic operation on it.
pub fn begin_log(sut: &Sut) {
    begin(sut, true, false)
}

/// Install the logging hook context: crash snapshots and/or the bounds monitor
pub fn begin(sut: &Sut, log: bool, bounds: bool) {
    LOG.with(|l| l.borrow_mut().clear());
    let ptr = sut.bufs.lower.ptr as usize;
    let len = sut.bufs.lower.len;
    let mut ctx = Ctx::new(Mode::Log);
    if bounds {
        ctx.check_bounds = true;
        ctx.ranges = vec![
            (sut.bufs.local.ptr as usize, sut.bufs.local.len),
            (sut.bufs.trees.ptr as usize, sut.bufs.trees.len),
            (sut.bufs.lower.ptr as usize, sut.bufs.lower.len),
        ];
    }
    if !log {
        hook::install_ctx(ctx);
        return;
    }
    ctx.persistent = (ptr, len);
    ctx.on_write = Some(Box::new(move |_ev| {
        let snap = unsafe { std::slice::from_raw_parts(ptr as *const u8, len) };
        LOG.with(|l| {
            let mut l = l.borrow_mut();
            if l.last().is_none_or(|last| last.as_slice() != snap) {
                l.push(snap.to_vec());
            }
        });
    }));
    hook::install_ctx(ctx);
}

/// Stop logging, returning the snapshots taken before each persistent write
pub fn end_log() -> Vec<Vec<u8>> {
    hook::take_ctx();
    LOG.with(|l| std::mem::take(&mut *l.borrow_mut()))
}

/// Stop logging; also returns the first out-of-bounds atomic access and the number of
/// hooked operations
pub fn end() -> (Vec<Vec<u8>>, Option<hook::Event>, u64) {
    let ctx = hook::take_ctx();
    let (oob, steps) = ctx.map(|c| (c.oob, c.steps)).unwrap_or((None, 0));
    (LOG.with(|l| std::mem::take(&mut *l.borrow_mut())), oob, steps)
}

/// Recovers crash images on a second allocator instance and evaluates the oracle
pub struct Recoverer {
    pub sut: Sut,
    seen: HashSet<u128>,
    pub points: u64,
    pub distinct: u64,
    scratch: Vec<u8>,
}

fn model_hash(m: &Model) -> u64 {
    let mut h = std::collections::hash_map::DefaultHasher::new();
    m.hash(&mut h);
    h.finish()
}

impl Recoverer {
    pub fn new(cfg: &Config) -> Option<Self> {
        let sut = Sut::try_new(cfg, Init::FreeAll, true).ok()?;
        Some(Self {
            sut,
            seen: HashSet::new(),
            points: 0,
            distinct: 0,
            scratch: Vec::new(),
        })
    }

    /// Evaluate the recovery oracle for one crash image.
    ///
    /// `m`: model with every *completed* call applied. `inflight`: calls that were
    /// started but had not returned at the crash.
    pub fn check(&mut self, lower: &[u8], m: &Model, inflight: &[Op], out: &mut Vec<Violation>) {
        let mut v = vec![];
        if let Err(msg) = crate::common::catch(|| self.check_raw(lower, m, inflight, &mut v)) {
            v.push(Violation::new(
                "C05",
                format!("panic while examining the recovered allocator: {}", crate::common::panic_signature(&msg)),
                msg,
            ));
        }
        out.extend(v);
    }

    fn check_raw(&mut self, lower: &[u8], m: &Model, inflight: &[Op], out: &mut Vec<Violation>) {
        self.points += 1;
        let mut hh = std::collections::hash_map::DefaultHasher::new();
        inflight.hash(&mut hh);
        let key = hash128(lower, model_hash(m) ^ hh.finish().rotate_left(32));
        if !self.seen.insert(key) {
            return;
        }
        self.distinct += 1;
        let tag = |s: &str| -> String {
            if inflight.is_empty() {
                format!("{s} (quiescent crash)")
            } else {
                s.to_string()
            }
        };

        // fresh volatile buffers, persistent image
        // (volatile memory holds arbitrary bytes after a crash: alternate the filling)
        let fill = [0u8, 0xff, 0x5a][(self.distinct % 3) as usize];
        self.sut.bufs.local.fill(fill);
        self.sut.bufs.trees.fill(fill);
        assert_eq!(lower.len(), self.sut.bufs.lower.len);
        unsafe {
            std::ptr::copy_nonoverlapping(lower.as_ptr(), self.sut.bufs.lower.ptr, lower.len());
        }
        // (a) recovery returns
        match self.sut.reinit(Init::Recover) {
            Ok(()) => {}
            Err(Res::Panic(msg)) => {
                out.push(Violation::new(
                    "C05",
                    format!("recovery panicked: {}", crate::common::panic_signature(&msg)),
                    msg,
                ));
                return;
            }
            Err(r) => {
                out.push(Violation::new(
                    "C05",
                    "recovery failed",
                    format!("Init::Recover -> {}", r.short()),
                ));
                return;
            }
        }
        let a = &self.sut.alloc;
        // blocks touched by a started free
        let touched = |s: usize, o: usize| -> bool {
            inflight.iter().any(|op| match op {
                Op::Put { frame, order, .. } => {
                    let (a0, a1) = (*frame, *frame + (1usize << *order));
                    let (b0, b1) = (s, s + (1usize << o));
                    a0 < b1 && b0 < a1
                }
                _ => false,
            })
        };
        // (b) completed allocations are still allocated ...
        let mut h_blocks: Vec<(usize, usize, bool)> = Vec::new();
        for (&s, &o) in &m.held {
            if touched(s, o) {
                continue;
            }
            h_blocks.push((s, o, m.derived.contains(&s)));
            for f in s..s + (1usize << o) {
                if a.stats_at(FrameId(f), 0).free_frames != 0 {
                    out.push(Violation::new(
                        "C05",
                        tag("completed allocation lost by recovery"),
                        format!("frame {f} of held block ({s},o{o}) is free after recovery; in flight: {:?}",
                            inflight.iter().map(|o| o.short()).collect::<Vec<_>>()),
                    ));
                    return;
                }
            }
        }
        // (c) free frames stay free unless covered by an in-flight call
        let mut leaked: Vec<usize> = Vec::new();
        for f in 0..m.frames {
            if m.cells[f] != FREE {
                continue;
            }
            // frames of an in-flight free may be in either state
            if touched(f, 0) {
                continue;
            }
            if a.stats_at(FrameId(f), 0).free_frames == 0 {
                leaked.push(f);
            }
        }
        if !leaked.is_empty() {
            let gets: Vec<(usize, Option<usize>)> = inflight
                .iter()
                .filter_map(|op| match op {
                    Op::Get { order, target, .. } => Some((*order, *target)),
                    _ => None,
                })
                .collect();
            if !coverable(&leaked, &gets) {
                out.push(Violation::new(
                    "C05",
                    tag("free frames allocated after recovery beyond the in-flight allocations"),
                    format!(
                        "leaked frames {:?}.. ({} frames); in flight: {:?}",
                        &leaked[..leaked.len().min(4)],
                        leaked.len(),
                        inflight.iter().map(|o| o.short()).collect::<Vec<_>>()
                    ),
                ));
                return;
            }
        }
        // (d) counts agree, validate passes
        let fast = a.tree_stats().free_frames;
        let exact = a.stats().free_frames;
        if fast != exact {
            out.push(Violation::new(
                "C05",
                tag("recovered fast and exact counts differ"),
                format!("tree_stats={fast} stats={exact}"),
            ));
            return;
        }
        if let Err(msg) = crate::common::catch(|| a.validate()) {
            out.push(Violation::new(
                "C05",
                tag(&format!(
                    "validate failed after recovery: {}",
                    crate::common::panic_signature(&msg)
                )),
                msg,
            ));
            return;
        }
        // (b) ... and can be freed with their original order: one at a time, then all
        self.sut.bufs.snapshot_into(&mut self.scratch);
        let scratch = std::mem::take(&mut self.scratch);
        let spec = &self.sut.cfg.classing;
        for &(s, o, derived) in &h_blocks {
            if derived {
                continue;
            }
            self.sut.bufs.restore(&scratch);
            let op = Op::Put {
                frame: s,
                order: o,
                class: spec.natural_class(o),
                local: None,
            };
            let r = self.sut.apply(&op);
            if r != Res::Done {
                out.push(Violation::new(
                    "C05",
                    tag("completed allocation cannot be freed after recovery"),
                    format!("{} -> {}", op.short(), r.short()),
                ));
                self.scratch = scratch;
                return;
            }
        }
        self.sut.bufs.restore(&scratch);
        for &(s, o, derived) in &h_blocks {
            if derived {
                continue;
            }
            let op = Op::Put {
                frame: s,
                order: o,
                class: spec.natural_class(o),
                local: None,
            };
            let r = self.sut.apply(&op);
            if r != Res::Done {
                out.push(Violation::new(
                    "C05",
                    tag("completed allocations cannot all be freed after recovery"),
                    format!("{} -> {}", op.short(), r.short()),
                ));
                break;
            }
        }
        self.scratch = scratch;
    }
}

/// Can `leaked` be covered by one aligned block per in-flight get?
fn coverable(leaked: &[usize], gets: &[(usize, Option<usize>)]) -> bool {
    let Some(&first) = leaked.first() else {
        return true;
    };
    for (i, &(order, target)) in gets.iter().enumerate() {
        let len = 1usize << order;
        let start = match target {
            Some(t) => {
                if first < t || first >= t + len {
                    continue;
                }
                t
            }
            None => first / len * len,
        };
        let rest: Vec<usize> = leaked
            .iter()
            .copied()
            .filter(|&f| f < start || f >= start + len)
            .collect();
        let mut g = gets.to_vec();
        g.remove(i);
        if coverable(&rest, &g) {
            return true;
        }
    }
    false
}

/// Crash points of one sequential transition `m1 --op--> m2`
#[allow(clippy::too_many_arguments)]
pub fn check_seq_transition(
    rec: &mut Recoverer,
    sut: &Sut,
    m1: &Model,
    m2: &Model,
    op: &Op,
    log: Vec<Vec<u8>>,
    out: &mut Vec<Violation>,
) {
    let inflight = [op.clone()];
    for snap in &log {
        rec.check(snap, m1, &inflight, out);
        if !out.is_empty() {
            return;
        }
    }
    // at the end: the call has returned
    rec.check(sut.bufs.lower.slice(), m2, &[], out);
}
