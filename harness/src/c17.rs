//! C17: zone and persistent wrappers

use std::path::Path;
use std::sync::Mutex;
use std::sync::atomic::{AtomicU64, Ordering};
use std::time::Instant;

use llfree::frame::Frame;
use llfree::wrapper::{NvmAlloc, ZoneAlloc};
use llfree::{
    Alloc, Class, Error, FrameId, HUGE_FRAMES, HUGE_ORDER, LLFree, MetaData, Request,
    TREE_FRAMES, TREE_ORDER,
};
use serde_json::json;

use crate::common::{Bufs, ClassingSpec, Config, ErrKind, InitMode, Op, Res, Sut, catch};
use crate::dom::{dom_finish, par_for};
use crate::model::{FREE, Model, Profile, alphabet};
use crate::oracle::{ClassTable, Violation};
use crate::report::Collector;

/// A zone allocator over its own buffers
struct ZoneTwin {
    bufs: Bufs,
    zone: ZoneAlloc<'static, LLFree<'static>>,
    offset: usize,
}
impl ZoneTwin {
    fn new(cfg: &Config, offset: usize) -> Self {
        let classing = cfg.classing.build();
        let ms = LLFree::metadata_size(&classing, cfg.frames);
        let bufs = Bufs::new(&ms, true);
        let meta = unsafe {
            MetaData {
                local: bufs.local.slice_mut(),
                trees: bufs.trees.slice_mut(),
                lower: bufs.lower.slice_mut(),
            }
        };
        let zone = ZoneAlloc::create(offset, cfg.frames, cfg.init.init(), &classing, meta)
            .expect("zone create");
        Self { bufs, zone, offset }
    }
    /// Apply the op shifted by the offset; results are shifted back
    fn apply(&self, op: &Op) -> Option<Res> {
        let off = self.offset;
        let r = catch(|| match op {
            Op::Get {
                order,
                class,
                local,
                target,
            } => {
                let req = Request::new(*order, Class(*class), *local);
                match self.zone.get(target.map(|t| FrameId(t + off)), req) {
                    Ok((f, c)) => {
                        if f.0 < off {
                            Res::Panic(format!("zone returned frame {} below its offset", f.0))
                        } else {
                            Res::Got(f.0 - off, c.0)
                        }
                    }
                    Err(e) => Res::Err(e.into()),
                }
            }
            Op::Put {
                frame,
                order,
                class,
                local,
            } => {
                let req = Request::new(*order, Class(*class), *local);
                match self.zone.put(FrameId(frame + off), req) {
                    Ok(()) => Res::Done,
                    Err(e) => Res::Err(e.into()),
                }
            }
            Op::Drain => {
                self.zone.drain();
                Res::Done
            }
            _ => Res::Done,
        });
        match (op, r) {
            (Op::Change { .. } | Op::Validate | Op::Queries, _) => None,
            (_, Ok(r)) => Some(r),
            (_, Err(p)) => Some(Res::Panic(p)),
        }
    }
    fn view(&self, n: usize) -> String {
        match catch(|| self.view_raw(n)) {
            Ok(v) => v,
            Err(p) => format!("PANIC in a zone query: {p}"),
        }
    }
    fn view_raw(&self, n: usize) -> String {
        let s = self.zone.stats();
        let t = self.zone.tree_stats();
        let mut per = String::new();
        for f in (0..n).step_by(61) {
            per.push(if self.zone.stats_at(FrameId(f + self.offset), 0).free_frames == 1 { '1' } else { '0' });
        }
        for f in (0..n).step_by(HUGE_FRAMES) {
            per += &format!("{},", self.zone.stats_at(FrameId(f + self.offset), HUGE_ORDER).free_frames);
        }
        format!(
            "{} ({},{},{}) fast={} {per}",
            self.zone.frames(),
            s.free_frames,
            s.free_huge,
            s.free_trees,
            t.free_frames
        )
    }
}

fn plain_view(sut: &Sut, n: usize) -> String {
    match catch(|| plain_view_raw(sut, n)) {
        Ok(v) => v,
        Err(p) => format!("PANIC in a query: {p}"),
    }
}

fn plain_view_raw(sut: &Sut, n: usize) -> String {
    let a = &sut.alloc;
    let s = a.stats();
    let t = a.tree_stats();
    let mut per = String::new();
    for f in (0..n).step_by(61) {
        per.push(if a.stats_at(FrameId(f), 0).free_frames == 1 { '1' } else { '0' });
    }
    for f in (0..n).step_by(HUGE_FRAMES) {
        per += &format!("{},", a.stats_at(FrameId(f), HUGE_ORDER).free_frames);
    }
    format!(
        "{} ({},{},{}) fast={} {per}",
        a.frames(),
        s.free_frames,
        s.free_huge,
        s.free_trees,
        t.free_frames
    )
}

/// Differential BFS: plain allocator vs zone wrapper, same bytes, same (shifted) calls
fn zone_differential(cfg: &Config, offset: usize, depth: usize, col: &Mutex<Collector>) -> (u64, u64) {
    let sut = Sut::new(cfg);
    let twin = ZoneTwin::new(cfg, offset);
    let classes = ClassTable::new(sut.policy);
    let mut profile = Profile::c02();
    profile.change_class = false;
    profile.max_held = 3;
    let mut frontier = vec![(sut.bufs.snapshot(), Model::new(cfg), Vec::<Op>::new())];
    let mut seen = std::collections::HashSet::new();
    let (mut transitions, mut states) = (0u64, 1u64);
    let mut a1 = Vec::new();
    let mut b1 = Vec::new();
    for _ in 0..depth {
        let mut next = vec![];
        for (bytes, m, path) in &frontier {
            // frames below the offset are rejected by get, put and stats_at, without effect
            twin.bufs.restore(bytes);
            for order in [0usize, 6, HUGE_ORDER] {
                let len = 1usize << order;
                for f in [0usize, offset - len, (offset - 1) / len * len, offset / 2 / len * len] {
                    if f >= offset {
                        continue;
                    }
                    for class in [cfg.classing.natural_class(order)] {
                        for local in [None, cfg.classing.slots(class).filter(|&n| n > 0).map(|_| 0)] {
                            let req = Request::new(order, Class(class), local);
                            let rg = catch(|| twin.zone.get(Some(FrameId(f)), req));
                            let rp = catch(|| twin.zone.put(FrameId(f), req));
                            let st = catch(|| twin.zone.stats_at(FrameId(f), order));
                            transitions += 3;
                            twin.bufs.snapshot_into(&mut b1);
                            let ok = matches!(rg, Ok(Err(Error::Argument)))
                                && matches!(rp, Ok(Err(Error::Argument)))
                                && st.as_ref().is_ok_and(|s| s.free_frames == 0 && s.free_huge == 0 && s.free_trees == 0)
                                && b1 == *bytes;
                            if !ok {
                                col.lock().unwrap().add(
                                    Violation::new(
                                        "C17",
                                        "zone wrapper does not reject a frame below its offset",
                                        format!(
                                            "{} offset {offset} after {:?}: frame {f} order {order} slot {local:?}: get {:?} put {:?} unchanged={}",
                                            cfg.describe(),
                                            path.iter().map(|o| o.short()).collect::<Vec<_>>(),
                                            rg.map(|r| r.map(|x| x.0.0)),
                                            rp,
                                            b1 == *bytes
                                        ),
                                    ),
                                    || json!({"engine": "dom", "check": "C17-zone-below", "config": cfg.json(), "offset": offset, "frame": f, "order": order}),
                                );
                                twin.bufs.restore(bytes);
                            }
                        }
                    }
                }
            }
            for op in alphabet(m, cfg, &profile) {
                sut.bufs.restore(bytes);
                twin.bufs.restore(bytes);
                let ra = sut.apply(&op);
                let Some(rb) = twin.apply(&op) else { continue };
                transitions += 1;
                sut.bufs.snapshot_into(&mut a1);
                twin.bufs.snapshot_into(&mut b1);
                let va = plain_view(&sut, cfg.frames);
                let vb = twin.view(cfg.frames);
                if ra != rb || a1 != b1 || va != vb {
                    col.lock().unwrap().add(
                        Violation::new(
                            "C17",
                            "zone wrapper differs from the inner allocator modulo its offset",
                            format!(
                                "{} offset {offset} after {:?}: {}: inner {} zone {} bytes_equal={} views_equal={}",
                                cfg.describe(),
                                path.iter().map(|o| o.short()).collect::<Vec<_>>(),
                                op.short(),
                                ra.short(),
                                rb.short(),
                                a1 == b1,
                                va == vb
                            ),
                        ),
                        || json!({"engine": "dom", "check": "C17-zone", "config": cfg.json(), "offset": offset,
                            "ops": path.iter().chain(std::iter::once(&op)).map(|o| o.json()).collect::<Vec<_>>()}),
                    );
                    continue;
                }
                if ra.is_panic() {
                    continue;
                }
                let mut m2 = m.clone();
                let mut v = vec![];
                crate::oracle::step(&mut m2, cfg, &classes, &op, &ra, None, &sut, &mut v);
                let key = crate::seq::state_key(&a1, &m2);
                if seen.insert(key) {
                    states += 1;
                    let mut p = path.clone();
                    p.push(op.clone());
                    next.push((a1.clone(), m2, p));
                }
            }
        }
        frontier = next;
    }
    (states, transitions)
}

// ---------------------------------------------------------------------------
// Persistent wrapper
// ---------------------------------------------------------------------------

/// An mmap'd, tree-aligned region of frames
struct Region {
    map: *mut u8,
    map_len: usize,
    start: *mut Frame,
    frames: usize,
}
unsafe impl Send for Region {}
impl Region {
    fn new(frames: usize, skew_trees: usize) -> Self {
        let align = Frame::SIZE << TREE_ORDER;
        let len = frames * Frame::SIZE;
        let map_len = len + align * (2 + skew_trees);
        let map = unsafe {
            libc::mmap(
                std::ptr::null_mut(),
                map_len,
                libc::PROT_READ | libc::PROT_WRITE,
                libc::MAP_PRIVATE | libc::MAP_ANONYMOUS | libc::MAP_NORESERVE,
                -1,
                0,
            )
        };
        assert!(map != libc::MAP_FAILED);
        let start = ((map as usize).next_multiple_of(align) + skew_trees * align) as *mut Frame;
        Self {
            map: map.cast(),
            map_len,
            start,
            frames,
        }
    }
    fn slice(&self, frames: usize) -> &'static mut [Frame] {
        assert!(frames <= self.frames);
        unsafe { std::slice::from_raw_parts_mut(self.start, frames) }
    }
    fn base_pfn(&self) -> usize {
        self.start as usize / Frame::SIZE
    }
}
impl Drop for Region {
    fn drop(&mut self) {
        unsafe { libc::munmap(self.map.cast(), self.map_len) };
    }
}

struct Volatile {
    local: crate::common::GuardBuf,
    trees: crate::common::GuardBuf,
}
impl Volatile {
    fn new(spec: &ClassingSpec, frames: usize) -> Self {
        let ms = LLFree::metadata_size(&spec.build(), frames);
        Self {
            local: crate::common::GuardBuf::new(ms.local, true),
            trees: crate::common::GuardBuf::new(ms.trees, true),
        }
    }
}

type Nvm = NvmAlloc<'static, LLFree<'static>>;

fn nvm_create(
    region: &Region,
    len: usize,
    recover: bool,
    spec: &ClassingSpec,
    vol: &Volatile,
) -> Result<llfree::Result<Nvm>, String> {
    let classing = spec.build();
    let zone = region.slice(len);
    vol.local.fill(0);
    vol.trees.fill(0);
    let (l, t) = unsafe { (vol.local.slice_mut(), vol.trees.slice_mut()) };
    catch(|| NvmAlloc::create(zone, recover, &classing, l, t))
}

fn nvm_apply(a: &Nvm, base: usize, op: &Op) -> Res {
    let r = catch(|| match op {
        Op::Get {
            order,
            class,
            local,
            target,
        } => match a.get(
            target.map(|t| FrameId(t + base)),
            Request::new(*order, Class(*class), *local),
        ) {
            Ok((f, c)) => {
                if f.0 < base {
                    Res::Panic(format!("frame {} below the zone", f.0))
                } else {
                    Res::Got(f.0 - base, c.0)
                }
            }
            Err(e) => Res::Err(e.into()),
        },
        Op::Put {
            frame,
            order,
            class,
            local,
        } => match a.put(FrameId(frame + base), Request::new(*order, Class(*class), *local)) {
            Ok(()) => Res::Done,
            Err(e) => Res::Err(e.into()),
        },
        Op::Drain => {
            a.drain();
            Res::Done
        }
        _ => Res::Done,
    });
    match r {
        Ok(r) => r,
        Err(p) => Res::Panic(p),
    }
}

fn nvm_family(zone_frames: usize, skew: usize, depth: usize, recover_prop: &'static str, col: &Mutex<Collector>) -> (u64, u64) {
    let spec = ClassingSpec::simple(1);
    let classing = spec.build();
    let region = Region::new(zone_frames + 2 * TREE_FRAMES, skew);
    let vol = Volatile::new(&spec, zone_frames + 2 * TREE_FRAMES);
    let base = region.base_pfn();
    let mut evals = 0u64;
    let mut histories = 0u64;
    let fail = |clause: &str, detail: String| {
        // the create -> history -> recover round trip is also a clause of C05
        let prop = if clause.starts_with("recovered persistent") || clause.starts_with("recovering an instance") {
            recover_prop
        } else {
            "C17"
        };
        col.lock().unwrap().add(Violation::new(prop, clause.to_string(), detail), || {
            json!({"engine": "dom", "check": "C17-nvm", "zone_frames": zone_frames, "skew_trees": skew})
        });
    };
    // recover on an untouched region
    evals += 1;
    match nvm_create(&region, zone_frames, true, &spec, &vol) {
        Ok(Err(Error::Initialization)) => {}
        r => fail(
            "recovery of an untouched region did not fail with an initialization error",
            format!("zone_frames={zone_frames}: {:?}", r.map(|r| r.map(|_| ()))),
        ),
    }
    // create
    let a = match nvm_create(&region, zone_frames, false, &spec, &vol) {
        Ok(Ok(a)) => a,
        r => {
            fail(
                "creating a persistent instance failed",
                format!("zone_frames={zone_frames}: {:?}", r.map(|r| r.map(|_| ()))),
            );
            return (evals, histories);
        }
    };
    let managed = a.frames();
    let ms = LLFree::metadata_size(&classing, zone_frames);
    let lower_pages = ms.lower.div_ceil(Frame::SIZE);
    let want_managed = zone_frames - 1 - lower_pages;
    if managed != want_managed {
        fail(
            "persistent instance manages an unexpected number of frames",
            format!("zone_frames={zone_frames}: manages {managed}, expected {want_managed}"),
        );
    }
    // exhaust: every frame lies inside the zone and below the metadata and header pages
    let meta_start = base + zone_frames - 1 - lower_pages;
    let get = Op::Get {
        order: 0,
        class: 0,
        local: Some(0),
        target: None,
    };
    let mut count = 0usize;
    loop {
        evals += 1;
        match a.get(None, Request::new(0, Class(0), Some(0))) {
            Ok((f, _)) => {
                count += 1;
                if f.0 < base || f.0 >= meta_start {
                    fail(
                        "persistent wrapper handed out a frame overlapping its metadata/header pages or outside the zone",
                        format!("zone_frames={zone_frames}: frame {} (zone {}..{}, metadata from {meta_start})", f.0, base, base + zone_frames),
                    );
                    break;
                }
                if count > zone_frames {
                    break;
                }
            }
            Err(_) => break,
        }
    }
    if count != managed {
        fail(
            "persistent wrapper does not hand out exactly its managed frames",
            format!("zone_frames={zone_frames}: {count} of {managed}"),
        );
    }
    // huge frames too
    drop(a);
    // recover with different lengths
    for (what, len) in [
        ("one frame shorter", zone_frames - 1),
        ("one frame longer", zone_frames + 1),
        ("one tree longer", zone_frames + TREE_FRAMES),
        ("one tree shorter", zone_frames.saturating_sub(TREE_FRAMES)),
    ] {
        if len < 2 * lower_pages + 8 {
            continue;
        }
        evals += 1;
        match nvm_create(&region, len, true, &spec, &vol) {
            Ok(Err(Error::Initialization)) => {}
            r => fail(
                "recovery of a differently sized region did not fail with an initialization error",
                format!("created with {zone_frames} frames, recovered with {len} ({what}): {:?}", r.map(|r| r.map(|_| ()))),
            ),
        }
    }
    // magic matches but the recorded frame count differs
    {
        let len = zone_frames + 1;
        let zone = region.slice(len);
        let header = &mut zone[len - 1] as *mut Frame as *mut usize;
        unsafe {
            *header = 0xdead_beef;
            *header.add(1) = zone_frames - 1; // an instance of another size
        }
        evals += 1;
        match nvm_create(&region, len, true, &spec, &vol) {
            Ok(Err(Error::Initialization)) => {}
            r => fail(
                "recovery with a matching magic but another recorded size did not fail",
                format!("{:?}", r.map(|r| r.map(|_| ()))),
            ),
        }
        unsafe {
            *header = 0;
            *header.add(1) = 0;
        }
    }
    // create -> every history up to `depth` -> recover -> same allocation state
    let cfg = Config::new(managed, spec.clone(), InitMode::FreeAll);
    let alphabet_fixed = |m: &Model| -> Vec<Op> {
        let mut ops = vec![
            get.clone(),
            Op::Get { order: 0, class: 0, local: None, target: None },
            Op::Get { order: 6, class: 0, local: Some(0), target: None },
            Op::Get { order: HUGE_ORDER, class: 1, local: Some(0), target: None },
            Op::Drain,
        ];
        if let Some((&s, &o)) = m.held.iter().next() {
            ops.push(Op::Put { frame: s, order: o, class: spec.natural_class(o), local: Some(0) });
            if o > 0 {
                ops.push(Op::Put { frame: s + (1 << (o - 1)), order: o - 1, class: 0, local: None });
            }
        }
        if let Some((&s, &o)) = m.held.iter().next_back() {
            ops.push(Op::Put { frame: s, order: o, class: spec.natural_class(o), local: None });
        }
        ops.dedup();
        ops
    };
    // enumerate histories by DFS re-execution from a fresh instance
    let mut stack: Vec<Vec<Op>> = vec![vec![]];
    let classes = ClassTable::new(classing.policy);
    while let Some(hist) = stack.pop() {
        // fresh instance
        let a = match nvm_create(&region, zone_frames, false, &spec, &vol) {
            Ok(Ok(a)) => a,
            _ => break,
        };
        let mut m = Model::new(&cfg);
        let mut ok = true;
        for op in &hist {
            let r = nvm_apply(&a, base, op);
            evals += 1;
            let mut v = vec![];
            // reuse the sequential step oracle for the model update (sut is only used for tree changes)
            step_model(&mut m, &cfg, &classes, op, &r, &mut v);
            if r.is_panic() || !v.is_empty() {
                ok = false;
                if let Some(v) = v.into_iter().next() {
                    fail("persistent wrapper history violates the ownership model", format!("{:?}: {}", hist.iter().map(|o| o.short()).collect::<Vec<_>>(), v.detail));
                }
                break;
            }
        }
        if !ok {
            continue;
        }
        histories += 1;
        drop(a);
        // recover
        match nvm_create(&region, zone_frames, true, &spec, &vol) {
            Ok(Ok(b)) => {
                let s = b.stats();
                let mut problem = None;
                if s.free_frames != m.free_total() || b.tree_stats().free_frames != m.free_total() {
                    problem = Some(format!("free count {} (fast {}) expected {}", s.free_frames, b.tree_stats().free_frames, m.free_total()));
                }
                for f in 0..managed {
                    let free = b.stats_at(FrameId(f + base), 0).free_frames == 1;
                    if free != (m.cells[f] == FREE) {
                        problem = Some(format!("frame {f}: free={free} expected {}", m.cells[f] == FREE));
                        break;
                    }
                }
                if problem.is_none() {
                    for (&s0, &o) in &m.held {
                        if m.derived.contains(&s0) {
                            continue;
                        }
                        let r = nvm_apply(&b, base, &Op::Put { frame: s0, order: o, class: spec.natural_class(o), local: None });
                        if r != Res::Done {
                            problem = Some(format!("held block ({s0},o{o}) not freeable after recovery: {}", r.short()));
                            break;
                        }
                    }
                }
                if let Some(p) = problem {
                    fail(
                        "recovered persistent instance has another allocation state",
                        format!("zone_frames={zone_frames} history {:?}: {p}", hist.iter().map(|o| o.short()).collect::<Vec<_>>()),
                    );
                }
            }
            r => fail(
                "recovering an instance the wrapper created failed",
                format!("zone_frames={zone_frames} history {:?}: {:?}", hist.iter().map(|o| o.short()).collect::<Vec<_>>(), r.map(|r| r.map(|_| ()))),
            ),
        }
        if hist.len() < depth {
            for op in alphabet_fixed(&m) {
                let mut h = hist.clone();
                h.push(op);
                stack.push(h);
            }
        }
    }
    let _ = ErrKind::Memory;
    (evals, histories)
}

/// Model update for wrapper histories (no tree changes)
fn step_model(m: &mut Model, _cfg: &Config, classes: &ClassTable, op: &Op, res: &Res, out: &mut Vec<Violation>) {
    match (op, res) {
        (Op::Get { order, class, target, .. }, Res::Got(f, c)) => {
            if target.is_some_and(|t| t != *f) || !classes.allowed[*class as usize][*c as usize] {
                out.push(Violation::new("C17", "wrapper allocation result", format!("{} -> {}", op.short(), res.short())));
            }
            if let Err(e) = m.apply_alloc(*f, *order) {
                out.push(Violation::new("C17", "wrapper allocation overlaps", e));
            }
        }
        (Op::Put { frame, order, .. }, r) => {
            let want = m.free_ok(*frame, *order);
            match (want, r) {
                (true, Res::Done) => m.apply_free(*frame, *order),
                (false, Res::Err(_)) => {}
                _ => out.push(Violation::new("C17", "wrapper free result", format!("{} -> {}", op.short(), r.short()))),
            }
        }
        _ => {}
    }
}

pub fn c17(tier: &str, out: Option<&Path>) -> i32 {
    let t0 = Instant::now();
    let thorough = tier == "thorough";
    let col = Mutex::new(Collector::default());
    let evals = AtomicU64::new(0);
    let nontrivial = AtomicU64::new(0);
    let states = AtomicU64::new(0);
    // zone differential
    let mut zjobs = vec![];
    for offset in [TREE_FRAMES, 3 * TREE_FRAMES, (1usize << 20) * TREE_FRAMES] {
        for frames in [TREE_FRAMES + HUGE_FRAMES + 3, 2 * TREE_FRAMES] {
            for init in [InitMode::FreeAll, InitMode::AllocAll] {
                for spec in [ClassingSpec::simple(1), ClassingSpec::movable(1)] {
                    if !thorough && (offset == 3 * TREE_FRAMES) != (spec.name == "movable(1)") {
                        continue;
                    }
                    zjobs.push((Config::new(frames, spec, init), offset));
                }
            }
        }
    }
    let zdepth = if thorough { 3 } else { 2 };
    par_for(zjobs.len(), |i| {
        let (cfg, off) = &zjobs[i];
        let (s, t) = zone_differential(cfg, *off, zdepth, &col);
        states.fetch_add(s, Ordering::Relaxed);
        evals.fetch_add(t, Ordering::Relaxed);
        nontrivial.fetch_add(s, Ordering::Relaxed);
    });
    // persistent wrapper
    let mut njobs = vec![];
    for trees in 1..=3usize {
        for rem in [0usize, 1, HUGE_FRAMES / 2 + 3, HUGE_FRAMES + 17] {
            for skew in [0usize, 1, 5] {
                if !thorough && ((trees + skew) % 2 == 0 || (trees == 3 && rem > 1)) {
                    continue;
                }
                njobs.push((trees * TREE_FRAMES + rem, skew));
            }
        }
    }
    // zone sizes at which the number of metadata pages changes (the wrapper computes the
    // metadata size from the zone length on creation and must arrive at the same layout on
    // recovery): every n up to the bound whose page count differs from that of n-1, +-1
    njobs.extend(metadata_page_boundaries(thorough).into_iter().map(|n| (n, 0)));
    let boundary_jobs = njobs.len();
    let ndepth = if thorough { 3 } else { 2 };
    let hist = AtomicU64::new(0);
    par_for(njobs.len(), |i| {
        // (the large zones come last in the list: start with them)
        let (zf, skew) = njobs[njobs.len() - 1 - i];
        let (e, h) = nvm_family(zf, skew, if zf > 4 * TREE_FRAMES { 1 } else { ndepth }, "C17", &col);
        evals.fetch_add(e, Ordering::Relaxed);
        hist.fetch_add(h, Ordering::Relaxed);
        nontrivial.fetch_add(h, Ordering::Relaxed);
    });
    dom_finish(
        "C17",
        tier,
        t0,
        evals.load(Ordering::Relaxed),
        nontrivial.load(Ordering::Relaxed),
        "zone wrapper: BFS to the stated depth over the C02 alphabet on a plain allocator; at every transition the same call shifted by the offset runs on a ZoneAlloc over byte-identical buffers: results modulo shift, bytes and statistics must be equal. Persistent wrapper: for every (zone size, base address) of the list: recover of an untouched region fails; create; exhaustion returns exactly the managed frames, none inside the metadata/header pages; recover with +-1 frame / +-1 tree and with a matching magic but another size fails; every history up to the stated depth over a fixed alphabet, then drop and recover: per-frame status, counts and freeability equal the model. distinct_nontrivial = distinct differential states + wrapper histories",
        vec![json!({"zone": {"offset": 3 * TREE_FRAMES, "frames": 2 * TREE_FRAMES}}), json!({"nvm": {"zone_frames": njobs[0].0, "base_skew_trees": njobs[0].1}})],
        json!({"nvm_jobs_total_incl_metadata_page_boundaries": boundary_jobs, "zone_jobs": zjobs.len(), "zone_depth": zdepth, "zone_states": states.load(Ordering::Relaxed),
            "nvm_jobs": njobs.len(), "nvm_history_depth": ndepth, "nvm_histories": hist.load(Ordering::Relaxed)}),
        vec!["the persistent region is anonymous mmap memory; crash points inside wrapper histories are covered by C05 on the inner allocator".into()],
        col.into_inner().unwrap(),
        out,
    )
}

/// Zone sizes (frames) at which the number of lower-metadata pages changes, +-1
pub fn metadata_page_boundaries(thorough: bool) -> Vec<usize> {
    let classing = ClassingSpec::simple(1).build();
    let pages = |n: usize| LLFree::metadata_size(&classing, n).lower.div_ceil(Frame::SIZE);
    let bound = if thorough { 600_000 } else { 140_000 };
    let mut out = vec![];
    let mut prev = pages(4 * TREE_FRAMES);
    let mut n = 4 * TREE_FRAMES + 1;
    while n <= bound {
        let p = pages(n);
        if p != prev {
            out.extend([n - 1, n, n + 1]);
        }
        prev = p;
        n += 1;
    }
    out
}

/// C05 part: persistent wrapper, create -> history -> drop -> recover, over small zones and
/// the metadata-page-boundary zone sizes. Returns (evaluations, histories).
pub fn c05_nvm_part(thorough: bool, col: &mut Collector) -> (u64, u64) {
    let mut jobs: Vec<(usize, usize)> = vec![
        (TREE_FRAMES, 0),
        (TREE_FRAMES + HUGE_FRAMES / 2 + 3, 1),
        (2 * TREE_FRAMES + 1, 0),
    ];
    jobs.extend(metadata_page_boundaries(thorough).into_iter().map(|n| (n, 0)));
    let shared = Mutex::new(Collector::default());
    let evals = AtomicU64::new(0);
    let hist = AtomicU64::new(0);
    par_for(jobs.len(), |i| {
        let (zf, skew) = jobs[jobs.len() - 1 - i];
        let depth = if zf > 4 * TREE_FRAMES { 1 } else if thorough { 3 } else { 2 };
        let (e, h) = nvm_family(zf, skew, depth, "C05", &shared);
        evals.fetch_add(e, Ordering::Relaxed);
        hist.fetch_add(h, Ordering::Relaxed);
    });
    col.merge(shared.into_inner().unwrap());
    (evals.load(Ordering::Relaxed), hist.load(Ordering::Relaxed))
}
