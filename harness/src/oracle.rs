//! Step and state oracles comparing the real allocator with the reference model.

use llfree::{
    Alloc, Class, FrameId, HUGE_FRAMES, HUGE_ORDER, Policy, PolicyFn, TREE_FRAMES, TREE_HUGE,
    TREE_ORDER, TreeId,
};

use crate::common::{Config, Op, Res, Sut, TreeOp};
use crate::model::{FREE, Model};

#[derive(Clone, Debug)]
pub struct Violation {
    pub prop: &'static str,
    /// stable identification of the failing oracle clause / panic signature
    pub clause: String,
    pub detail: String,
}
impl Violation {
    pub fn new(prop: &'static str, clause: impl Into<String>, detail: impl Into<String>) -> Self {
        Self {
            prop,
            clause: clause.into(),
            detail: detail.into(),
        }
    }
}

/// Which returned classes are permitted for a requested class: requested itself or
/// any class the policy rates Match/Steal for some free count.
pub struct ClassTable {
    pub allowed: [[bool; 8]; 8],
}
impl ClassTable {
    pub fn new(policy: PolicyFn) -> Self {
        let mut allowed = [[false; 8]; 8];
        for r in 0..8u8 {
            for t in 0..8u8 {
                if r == t {
                    allowed[r as usize][t as usize] = true;
                    continue;
                }
                for free in 0..=TREE_FRAMES {
                    if matches!(
                        policy(Class(r), Class(t), free),
                        Policy::Match(_) | Policy::Steal
                    ) {
                        allowed[r as usize][t as usize] = true;
                        break;
                    }
                }
            }
        }
        Self { allowed }
    }
}

pub type TreeView = Vec<(u8, usize, bool)>;

pub fn tree_view(sut: &Sut) -> TreeView {
    crate::common::catch(|| {
        (0..sut.trees())
            .map(|t| {
                let (c, f, r) = sut.alloc.trees.stats_at(TreeId(t));
                (c.0, f, r)
            })
            .collect()
    })
    .unwrap_or_default()
}

/// Evaluate one transition. `m` is updated to the post state.
pub fn step(
    m: &mut Model,
    cfg: &Config,
    classes: &ClassTable,
    op: &Op,
    res: &Res,
    before: Option<&TreeView>,
    sut: &Sut,
    out: &mut Vec<Violation>,
) {
    if let Res::Panic(msg) = res {
        out.push(Violation::new(
            "C09",
            format!("panic: {}", crate::common::panic_signature(msg)),
            format!("{} panicked: {msg}", op.short()),
        ));
        if msg.contains("step budget") {
            out.push(Violation::new(
                "C21",
                "sequential call does not finish within its step budget",
                format!("{} ran more than {} hooked atomic operations on its own", op.short(), crate::hook::CALL_BUDGET),
            ));
        }
        return;
    }
    match op {
        Op::Get {
            order,
            class,
            local: _,
            target,
        } => match res {
            Res::Got(f, c) => {
                if let Some(t) = target
                    && t != f
                {
                    out.push(Violation::new(
                        "C02",
                        "targeted allocation returned another frame",
                        format!("{} -> {f}", op.short()),
                    ));
                }
                if m.offline[*f / TREE_FRAMES] && !m.unjudged_accounting {
                    out.push(Violation::new(
                        "C15",
                        "allocation from an offline tree",
                        format!("{} -> {f} in offline tree {}", op.short(), f / TREE_FRAMES),
                    ));
                }
                if !classes.allowed[*class as usize][*c as usize] {
                    out.push(Violation::new(
                        "C13",
                        "reported class not permitted by policy",
                        format!("{} reported C{c}", op.short()),
                    ));
                }
                if cfg.classing.slots(*c).is_none() {
                    out.push(Violation::new(
                        "C13",
                        "reported class not configured",
                        format!("{} reported C{c}", op.short()),
                    ));
                }
                if let Err(e) = m.apply_alloc(*f, *order) {
                    out.push(Violation::new(
                        "C02",
                        "allocation returned a block that was not entirely free/aligned/in range",
                        format!("{}: {e}", op.short()),
                    ));
                    // C01 sequential part
                    out.push(Violation::new(
                        "C01",
                        "sequential allocation overlaps/misaligned/out of range",
                        format!("{}: {e}", op.short()),
                    ));
                }
            }
            Res::Err(_) => {}
            _ => out.push(Violation::new(
                "C02",
                "allocation returned neither block nor error",
                op.short(),
            )),
        },
        Op::Put { frame, order, .. } => {
            let expect = m.free_ok(*frame, *order);
            match (expect, res) {
                (true, Res::Done) => m.apply_free(*frame, *order),
                (false, Res::Err(_)) => {}
                (true, r) => out.push(Violation::new(
                    "C02",
                    "free of an allocated block failed",
                    format!("{} -> {}", op.short(), r.short()),
                )),
                (false, r) => {
                    out.push(Violation::new(
                        "C02",
                        "free succeeded although the model forbids it",
                        format!("{} -> {}", op.short(), r.short()),
                    ));
                }
            }
        }
        Op::Drain => {}
        Op::Change { .. } => {
            let after = tree_view(sut);
            let before = before.expect("tree view");
            change_oracle(m, cfg, op, res, before, &after, out);
        }
        Op::Validate | Op::Queries => {}
    }
}

fn change_oracle(
    m: &mut Model,
    _cfg: &Config,
    op: &Op,
    res: &Res,
    before: &TreeView,
    after: &TreeView,
    out: &mut Vec<Violation>,
) {
    let Op::Change {
        id,
        mclass,
        mfree,
        class,
        op: top,
    } = op
    else {
        unreachable!()
    };
    if before.len() != after.len() || before.len() != m.trees() {
        return; // a query panicked (reported elsewhere)
    }
    let changed: Vec<usize> = (0..before.len())
        .filter(|&t| before[t] != after[t])
        .collect();
    let judged = !m.unjudged_accounting;
    if judged && changed.len() > 1 {
        out.push(Violation::new(
            "C15",
            "tree change modified more than one tree",
            format!("{}: changed {changed:?}", op.short()),
        ));
    }
    let ok = matches!(res, Res::Done);
    if !ok {
        if judged && !changed.is_empty() {
            out.push(Violation::new(
                "C15",
                "failed tree change modified a tree",
                format!("{}: changed {changed:?}", op.short()),
            ));
        }
        // Offline of an unreserved, entirely free tree by id must succeed
        if let (Some(t), Some(TreeOp::Offline)) = (id, top)
            && *t < before.len()
            && judged
        {
            let r = m.tree_range(*t);
            let entirely_free = m.free_in(r.clone()) == r.len();
            let (c, f, reserved) = before[*t];
            if entirely_free
                && !reserved
                && !m.offline[*t]
                && mclass.is_none_or(|k| k == c)
                && f >= *mfree
            {
                out.push(Violation::new(
                    "C15",
                    "offline of an unreserved entirely free tree failed",
                    op.short(),
                ));
            }
        }
        // by search: the request must find a tree it applies to if one exists
        if id.is_none() && judged {
            for t in 0..before.len() {
                let (c, f, reserved) = before[t];
                if reserved || !mclass.is_none_or(|k| k == c) || f < *mfree {
                    continue;
                }
                let r = m.tree_range(t);
                match top {
                    Some(TreeOp::Offline) if !m.offline[t] && m.free_in(r.clone()) == r.len() => {
                        out.push(Violation::new(
                            "C15",
                            "offline by search failed although an unreserved entirely free matching tree exists",
                            format!("{}: tree {t} is (C{c},{f},res={reserved})", op.short()),
                        ));
                        break;
                    }
                    Some(TreeOp::Online) if m.offline[t] && f == 0 => {
                        out.push(Violation::new(
                            "C15",
                            "online by search failed although an offline matching tree exists",
                            format!("{}: tree {t} is offline (C{c},{f},res={reserved})", op.short()),
                        ));
                        break;
                    }
                    _ => {}
                }
            }
        }
        return;
    }
    // Successful change: the changed tree (if any) must have been unreserved and matching
    for &t in &changed {
        let (c, f, reserved) = before[t];
        if judged
            && (reserved
                || !mclass.is_none_or(|k| k == c)
                || f < *mfree
                || id.is_some_and(|i| i != t))
        {
            out.push(Violation::new(
                "C15",
                "tree change applied to a reserved or non-matching tree",
                format!("{}: tree {t} was (C{c},{f},res={reserved})", op.short()),
            ));
        }
    }
    // With an id: success on a reserved or non-matching tree is a violation even if
    // nothing visibly changed (except for no-op changes)
    if let Some(t) = id
        && *t < before.len()
        && judged
    {
        let (c, f, reserved) = before[*t];
        if reserved || !mclass.is_none_or(|k| k == c) || f < *mfree {
            out.push(Violation::new(
                "C15",
                "tree change reported success for a reserved or non-matching tree",
                format!("{}: tree {t} was (C{c},{f},res={reserved})", op.short()),
            ));
        }
    }
    // Which tree was addressed?
    let target = match id {
        Some(t) => {
            if *t < before.len() {
                Some(*t)
            } else {
                None
            }
        }
        None => changed.first().copied(),
    };
    match top {
        Some(TreeOp::Offline) => {
            if let Some(t) = target {
                let r = m.tree_range(t);
                let entirely_free = m.free_in(r.clone()) == r.len();
                if entirely_free || m.offline[t] {
                    m.offline[t] = true;
                    if after[t].1 != 0 && judged {
                        out.push(Violation::new(
                            "C15",
                            "offline tree keeps a non-zero fast counter",
                            format!("{}: tree {t} counter {}", op.short(), after[t].1),
                        ));
                    }
                } else {
                    // offline of a partially used tree: outside the judged protocol
                    m.offline[t] = true;
                    m.unjudged_accounting = true;
                }
            } else if id.is_none() {
                // a by-match offline that changed nothing visible: it re-offlined an
                // already offline tree or hid an empty counter; nothing to track
            }
        }
        Some(TreeOp::Online) => {
            if let Some(t) = target
                && m.offline[t]
            {
                m.offline[t] = false;
                if judged {
                    let want = m.tree_free(t);
                    if after[t].1 != want || after[t].2 {
                        out.push(Violation::new(
                            "C15",
                            "online did not restore the exact free count",
                            format!(
                                "{}: tree {t} counter {} expected {want}",
                                op.short(),
                                after[t].1
                            ),
                        ));
                    }
                    if let Some(k) = class
                        && after[t].0 != *k
                    {
                        out.push(Violation::new(
                            "C15",
                            "online did not set the requested class",
                            format!("{}: tree {t} class C{}", op.short(), after[t].0),
                        ));
                    }
                }
            }
        }
        None => {}
    }
}

const ALL_PROPS: [&str; 23] = [
    "C01", "C02", "C03", "C04", "C05", "C06", "C07", "C08", "C09", "C10", "C11", "C12", "C13", "C14",
    "C15", "C16", "C17", "C18", "C19", "C20", "C21", "C22", "C23",
];
/// Index of the property the current run decides (violations of panicking queries are
/// also attributed to it)
static HOST_IDX: std::sync::atomic::AtomicUsize = std::sync::atomic::AtomicUsize::new(8);

pub fn static_prop(p: &str) -> &'static str {
    ALL_PROPS.iter().find(|x| **x == p).copied().unwrap_or("C09")
}
pub fn set_host_prop(p: &str) {
    let i = ALL_PROPS.iter().position(|x| *x == p).unwrap_or(8);
    HOST_IDX.store(i, std::sync::atomic::Ordering::SeqCst);
}
pub fn host_prop() -> &'static str {
    ALL_PROPS[HOST_IDX.load(std::sync::atomic::Ordering::SeqCst)]
}

/// A panic of the subject inside an oracle query is a verdict, not a machinery error
pub fn query_panic(msg: &str, what: &str, out: &mut Vec<Violation>) {
    let sig = crate::common::panic_signature(msg);
    let host = host_prop();
    out.push(Violation::new(
        "C09",
        format!("panic in a query: {sig}"),
        format!("{what}: {msg}"),
    ));
    if host != "C09" {
        out.push(Violation::new(
            host,
            format!("panic in a query: {sig}"),
            format!("{what}: {msg}"),
        ));
    }
}

/// State oracles (C04, C14, frame status of C02). Called on quiescent states.
pub fn state(m: &Model, sut: &Sut, full_frames: bool, out: &mut Vec<Violation>) {
    let mut v = vec![];
    if let Err(msg) = crate::common::catch(|| state_raw(m, sut, full_frames, &mut v)) {
        query_panic(&msg, "state oracle", &mut v);
    }
    out.extend(v);
}

fn state_raw(m: &Model, sut: &Sut, full_frames: bool, out: &mut Vec<Violation>) {
    let a = &sut.alloc;
    let n = m.frames;
    // --- per frame status (C02: failing calls change nothing; C04: per-frame queries)
    if full_frames {
        for f in 0..n {
            let want = (m.cells[f] == FREE) as usize;
            let got = a.stats_at(FrameId(f), 0).free_frames;
            if got != want {
                out.push(Violation::new(
                    "C02",
                    "frame status differs from the ownership model",
                    format!("frame {f}: stats_at free={got} model free={want}"),
                ));
                out.push(Violation::new(
                    "C04",
                    "per-frame query differs from the allocation state",
                    format!("frame {f}: stats_at free={got} model free={want}"),
                ));
                break;
            }
            let got2 = a.lower.is_free(FrameId(f), 0);
            if got2 != (want == 1) {
                out.push(Violation::new(
                    "C04",
                    "is_free(frame,0) differs from the allocation state",
                    format!("frame {f}: is_free={got2} model free={want}"),
                ));
                break;
            }
        }
        // frames beyond the managed count inside the last tree must not be reported free
        let end = m.trees() * TREE_FRAMES;
        for f in n..end.min(n + 2 * HUGE_FRAMES) {
            // only query frames whose huge frame has a bitfield
            if f / HUGE_FRAMES >= n.div_ceil(HUGE_FRAMES) {
                break;
            }
            if a.stats_at(FrameId(f), 0).free_frames != 0 {
                out.push(Violation::new(
                    "C06",
                    "frame beyond the managed count reported free",
                    format!("frame {f} of {n}"),
                ));
                break;
            }
        }
    }
    // --- huge frames
    let mut free_huge = 0;
    for h in 0..m.huges() {
        let r = m.huge_range(h);
        let want = m.free_in(r.clone());
        let whole = r.len() == HUGE_FRAMES;
        let s = a.stats_at(FrameId(h * HUGE_FRAMES), HUGE_ORDER);
        let want_huge = (whole && want == HUGE_FRAMES) as usize;
        free_huge += want_huge;
        if s.free_frames != want || s.free_huge != want_huge {
            out.push(Violation::new(
                "C04",
                "per-huge-frame query differs from the allocation state",
                format!(
                    "huge {h}: stats_at=({},{}) model=({want},{want_huge})",
                    s.free_frames, s.free_huge
                ),
            ));
            break;
        }
        if whole {
            let isf = a.lower.is_free(FrameId(h * HUGE_FRAMES), HUGE_ORDER);
            if isf != (want == HUGE_FRAMES) {
                out.push(Violation::new(
                    "C04",
                    "is_free(huge) differs from the allocation state",
                    format!("huge {h}: is_free={isf} model free={want}"),
                ));
                break;
            }
        }
    }
    // --- trees
    let mut free_trees = 0;
    for t in 0..m.trees() {
        let r = m.tree_range(t);
        let want = m.free_in(r.clone());
        let want_huge = (t * TREE_HUGE..(t + 1) * TREE_HUGE)
            .filter(|&h| h < n / HUGE_FRAMES && m.free_in(m.huge_range(h)) == HUGE_FRAMES)
            .count();
        let want_tree = (want == TREE_FRAMES) as usize;
        free_trees += want_tree;
        let s = a.stats_at(FrameId(t * TREE_FRAMES), TREE_ORDER);
        // under tree_huge_1 the huge arm answers (free_trees is 0 there): not judged
        let trees_ok = TREE_ORDER == HUGE_ORDER || s.free_trees == want_tree;
        if s.free_frames != want || s.free_huge != want_huge || !trees_ok {
            out.push(Violation::new(
                "C04",
                "per-tree query differs from the allocation state",
                format!(
                    "tree {t}: stats_at=({},{},{}) model=({want},{want_huge},{want_tree})",
                    s.free_frames, s.free_huge, s.free_trees
                ),
            ));
            break;
        }
    }
    // --- totals
    let s = a.stats();
    let total = m.free_total();
    if s.free_frames != total || s.free_huge != free_huge || s.free_trees != free_trees {
        out.push(Violation::new(
            "C04",
            "exact totals differ from the allocation state",
            format!(
                "stats=({},{},{}) model=({total},{free_huge},{free_trees})",
                s.free_frames, s.free_huge, s.free_trees
            ),
        ));
    }
    if m.unjudged_accounting {
        return;
    }
    // --- fast count
    let ts = a.tree_stats();
    let want_fast = m.free_online();
    if ts.free_frames != want_fast {
        out.push(Violation::new(
            "C04",
            "fast free count != exact count minus offline trees",
            format!("tree_stats.free_frames={} expected {want_fast}", ts.free_frames),
        ));
    }
    // --- C14
    let sum_free: usize = ts.classes.iter().map(|c| c.free_frames).sum();
    let sum_all: usize = ts
        .classes
        .iter()
        .map(|c| c.free_frames + c.alloc_frames)
        .sum();
    if sum_all != m.trees() * TREE_FRAMES {
        out.push(Violation::new(
            "C14",
            "per-class free+allocated does not sum to trees*tree size",
            format!("sum={sum_all} expected {}", m.trees() * TREE_FRAMES),
        ));
    }
    if sum_free != ts.free_frames {
        out.push(Violation::new(
            "C14",
            "per-class free counts do not sum to the fast total",
            format!("sum={sum_free} fast total={}", ts.free_frames),
        ));
    }
    // --- validate
    if !m.any_offline() {
        if let Err(msg) = crate::common::catch(|| a.validate()) {
            out.push(Violation::new(
                "C04",
                format!("validate failed: {}", crate::common::panic_signature(&msg)),
                msg,
            ));
        }
    }
}

/// `is_free` of aligned blocks of several orders against the model (C04)
pub fn state_blocks(m: &Model, sut: &Sut, out: &mut Vec<Violation>) {
    let mut v = vec![];
    if let Err(msg) = crate::common::catch(|| state_blocks_raw(m, sut, &mut v)) {
        query_panic(&msg, "is_free oracle", &mut v);
    }
    out.extend(v);
}

fn state_blocks_raw(m: &Model, sut: &Sut, out: &mut Vec<Violation>) {
    let a = &sut.alloc;
    for order in [3usize, 6, 7, HUGE_ORDER, HUGE_ORDER + 1, TREE_ORDER] {
        if order > TREE_ORDER {
            continue;
        }
        let len = 1usize << order;
        let mut f = 0;
        while f + len <= m.frames {
            let want = m.block_free(f, order);
            let got = a.lower.is_free(FrameId(f), order);
            if want != got {
                out.push(Violation::new(
                    "C04",
                    "is_free(block) differs from the allocation state",
                    format!("block {f} o{order}: is_free={got} model={want}"),
                ));
                return;
            }
            f += len;
        }
    }
}
