//! Model-checking harness for llfree-rs (see /verif/DESIGN.md)
pub mod c17;
pub mod checks;
pub mod common;
pub mod crash;
pub mod dom;
pub mod extras;
pub mod guard;
pub mod hook;
pub mod ilv;
pub mod model;
pub mod oracle;
pub mod probes;
pub mod report;
pub mod scenarios;
pub mod script;
pub mod seq;
