use std::path::PathBuf;

fn main() {
    let args: Vec<String> = std::env::args().collect();
    if args.len() < 3 {
        eprintln!("usage: vh check <Cxx> <quick|thorough> [--out file] | vh replay <file>");
        std::process::exit(2);
    }
    vh::common::install_panic_hook();
    vh::hook::install();
    vh::guard::install_handler();
    vh::common::start_watchdog(600);
    match args[1].as_str() {
        "check" => {
            let prop = args[2].clone();
            let tier = args.get(3).cloned().unwrap_or_else(|| "quick".into());
            let out = args
                .iter()
                .position(|a| a == "--out")
                .and_then(|i| args.get(i + 1))
                .map(PathBuf::from);
            let code = std::thread::Builder::new()
                .stack_size(vh::common::WORKER_STACK)
                .spawn(move || vh::checks::run(&prop, &tier, out.as_deref()))
                .expect("spawn")
                .join()
                .unwrap_or(2);
            std::process::exit(code);
        }
        "child" => {
            // isolated sub-steps of a check (a crash of the subject must not take the engine down)
            if args[2] == "c08meta" {
                let thorough = args.get(3).map(|s| s == "thorough").unwrap_or(false);
                let col = std::sync::Mutex::new(vh::report::Collector::default());
                let n = vh::dom::c08_meta(thorough, true, &col);
                for ((_, clause), f) in &col.into_inner().unwrap().found {
                    println!("VIOL\t{clause}\t{}", f.v.detail.replace('\n', " "));
                }
                println!("DONE {n}");
                std::process::exit(0);
            }
            std::process::exit(2);
        }
        "replay" => {
            let code = vh::checks::replay(&args[2]);
            std::process::exit(code);
        }
        _ => {
            eprintln!("unknown command");
            std::process::exit(2);
        }
    }
}
