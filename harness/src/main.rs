use std::path::PathBuf;

fn main() {
    let args: Vec<String> = std::env::args().collect();
    if args.len() < 3 {
        eprintln!("usage: vh check <Cxx> <quick|thorough> [--out file] | vh replay <file>");
        std::process::exit(2);
    }
    vh::common::install_panic_hook();
    vh::hook::install();
    vh::guard::install_handler();
    vh::common::start_watchdog(600);
    match args[1].as_str() {
        "check" => {
            let prop = args[2].clone();
            let tier = args.get(3).cloned().unwrap_or_else(|| "quick".into());
            let out = args
                .iter()
                .position(|a| a == "--out")
                .and_then(|i| args.get(i + 1))
                .map(PathBuf::from);
            let code = vh::checks::run(&prop, &tier, out.as_deref());
            std::process::exit(code);
        }
        "replay" => {
            let code = vh::checks::replay(&args[2]);
            std::process::exit(code);
        }
        _ => {
            eprintln!("unknown command");
            std::process::exit(2);
        }
    }
}
