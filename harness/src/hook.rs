//! Dispatch of the `llfree::verif` hooks to a per-OS-thread context.
//!
//! One global hook table is installed once; it looks up a thread-local context, so
//! 16 worker threads can run independent engines in one process.

use std::cell::{Cell, RefCell};

use llfree::verif::{self, Hooks, Kind};

#[derive(Clone, Copy, Debug, PartialEq, Eq)]
pub enum Mode {
    /// Hooks ignored
    Off,
    /// Bounds monitor + write callback, no scheduling
    Log,
    /// Scheduling: yield to the explorer at every point (only inside coroutines)
    Sched,
}

#[derive(Clone, Copy, Debug)]
pub struct Event {
    pub kind: Kind,
    pub addr: usize,
    pub size: usize,
}

pub struct Ctx {
    pub mode: Mode,
    /// Allowed address ranges (start, len): the three buffers (+ extras)
    pub ranges: Vec<(usize, usize)>,
    pub check_bounds: bool,
    /// first out of bounds access seen
    pub oob: Option<Event>,
    /// number of hooked operations
    pub steps: u64,
    /// persistent range (lower buffer [+ header]) for the write callback
    pub persistent: (usize, usize),
    /// Called before every potentially writing operation inside `persistent`
    pub on_write: Option<Box<dyn FnMut(&Event)>>,
    /// rolling hash of everything the running call observed (state cache key)
    pub obs_hash: u64,
    /// number of mixed-size accesses seen (informational)
    pub sizes_seen: [u64; 9],
    /// hooked operations since the current call started (step budget of `catch_call`)
    pub call_steps: u64,
    /// 0 = no budget
    pub call_budget: u64,
}

impl Ctx {
    pub fn new(mode: Mode) -> Self {
        Self {
            mode,
            ranges: Vec::new(),
            check_bounds: false,
            oob: None,
            steps: 0,
            persistent: (0, 0),
            on_write: None,
            obs_hash: 0,
            sizes_seen: [0; 9],
            call_steps: 0,
            call_budget: 0,
        }
    }
}

thread_local! {
    static CTX: RefCell<Option<Ctx>> = const { RefCell::new(None) };
    /// Set while a coroutine of the interleaving explorer is running on this thread
    static IN_CORO: Cell<bool> = const { Cell::new(false) };
}

pub fn set_in_coroutine(v: bool) {
    IN_CORO.with(|c| c.set(v));
}
pub fn in_coroutine() -> bool {
    IN_CORO.with(|c| c.get())
}

pub fn install_ctx(ctx: Ctx) {
    CTX.with(|c| *c.borrow_mut() = Some(ctx));
}
pub fn take_ctx() -> Option<Ctx> {
    CTX.with(|c| c.borrow_mut().take())
}
pub fn with_ctx<R>(f: impl FnOnce(&mut Ctx) -> R) -> Option<R> {
    CTX.with(|c| c.borrow_mut().as_mut().map(f))
}

#[inline]
fn mix(h: u64, v: u64) -> u64 {
    // splitmix style
    let mut x = h ^ v.wrapping_mul(0x9E37_79B9_7F4A_7C15);
    x = (x ^ (x >> 30)).wrapping_mul(0xBF58_476D_1CE4_E5B9);
    x = (x ^ (x >> 27)).wrapping_mul(0x94D0_49BB_1331_11EB);
    x ^ (x >> 31)
}

fn is_write(kind: Kind) -> bool {
    !matches!(kind, Kind::Load)
}

/// Step budget of a single sequential call of the subject (hooked atomic operations)
pub const CALL_BUDGET: u64 = 1_000_000;

fn hook_point(kind: Kind, addr: usize, size: usize) {
    let ev = Event { kind, addr, size };
    let mut yield_now = false;
    let mut over = false;
    CTX.with(|c| {
        let mut b = c.borrow_mut();
        let Some(ctx) = b.as_mut() else { return };
        if ctx.call_budget != 0 {
            ctx.call_steps += 1;
            if ctx.call_steps > ctx.call_budget {
                ctx.call_steps = 0;
                over = true;
                return;
            }
        }
        if ctx.mode == Mode::Off {
            return;
        }
        ctx.steps += 1;
        if size <= 8 {
            ctx.sizes_seen[size] += 1;
        }
        if ctx.check_bounds
            && ctx.oob.is_none()
            && !ctx
                .ranges
                .iter()
                .any(|&(s, l)| addr >= s && addr + size <= s + l)
        {
            ctx.oob = Some(ev);
        }
        if is_write(kind)
            && addr >= ctx.persistent.0
            && addr + size <= ctx.persistent.0 + ctx.persistent.1
            && let Some(cb) = ctx.on_write.as_mut()
        {
            cb(&ev);
        }
        if ctx.mode == Mode::Sched && in_coroutine() && kind != Kind::Bulk {
            yield_now = true;
        }
    });
    if over {
        panic!("call exceeded its step budget (does not terminate when running alone)");
    }
    if yield_now {
        crate::ilv::yield_point(ev);
    }
}

/// Start a budgeted call: returns true if a temporary context was installed
pub fn begin_call() -> bool {
    CTX.with(|c| {
        let mut b = c.borrow_mut();
        match b.as_mut() {
            Some(ctx) => {
                if ctx.mode != Mode::Sched {
                    ctx.call_steps = 0;
                    ctx.call_budget = CALL_BUDGET;
                }
                false
            }
            None => {
                let mut ctx = Ctx::new(Mode::Off);
                ctx.call_budget = CALL_BUDGET;
                *b = Some(ctx);
                true
            }
        }
    })
}
pub fn end_call(temporary: bool) {
    CTX.with(|c| {
        let mut b = c.borrow_mut();
        if temporary {
            *b = None;
        } else if let Some(ctx) = b.as_mut() {
            ctx.call_budget = 0;
        }
    });
}

fn hook_observed(kind: Kind, addr: usize, _size: usize, value: u64, wrote: bool) {
    CTX.with(|c| {
        let mut b = c.borrow_mut();
        let Some(ctx) = b.as_mut() else { return };
        if ctx.mode != Mode::Sched {
            return;
        }
        let mut h = ctx.obs_hash;
        h = mix(h, kind as u64);
        h = mix(h, addr as u64);
        h = mix(h, value);
        h = mix(h, wrote as u64);
        ctx.obs_hash = h;
    });
}

static HOOKS: Hooks = Hooks {
    point: hook_point,
    observed: hook_observed,
};

/// Install the global hook table (idempotent)
pub fn install() {
    verif::install(Some(&HOOKS));
}

pub fn mix64(h: u64, v: u64) -> u64 {
    mix(h, v)
}
