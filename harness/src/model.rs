//! Frame-ownership reference model (DESIGN §5) and the state dependent alphabet.
//!
//! Boring on purpose: a vector of cells, a set of held blocks, offline flags.

use std::collections::{BTreeMap, BTreeSet};
use std::hash::{Hash, Hasher};

use llfree::{HUGE_FRAMES, HUGE_ORDER, TREE_FRAMES, TREE_ORDER};

use crate::common::{ClassingSpec, Config, InitMode, Op, TreeOp};

pub const FREE: u8 = 0;
/// Allocated as (part of) a block below the huge order, or split
pub const SMALL: u8 = 1;
/// Part of a huge frame that was allocated as a whole and not split since
pub const WHOLE: u8 = 2;

#[derive(Clone, Debug, PartialEq, Eq)]
pub struct Model {
    pub frames: usize,
    pub cells: Vec<u8>,
    /// Blocks known to be held: start -> order
    pub held: BTreeMap<usize, usize>,
    /// Held blocks that are remainders of a partially freed allocation
    pub derived: BTreeSet<usize>,
    /// Trees taken offline while entirely free
    pub offline: Vec<bool>,
    /// Set when a tree change outside the judged protocol happened (offline of a
    /// partially used tree, ...): accounting oracles are disabled afterwards.
    pub unjudged_accounting: bool,
}

impl Hash for Model {
    fn hash<H: Hasher>(&self, state: &mut H) {
        self.cells.hash(state);
        self.held.hash(state);
        self.derived.hash(state);
        self.offline.hash(state);
        self.unjudged_accounting.hash(state);
    }
}

impl Model {
    pub fn new(cfg: &Config) -> Self {
        let n = cfg.frames;
        let mut m = Self {
            frames: n,
            cells: vec![FREE; n],
            held: BTreeMap::new(),
            derived: BTreeSet::new(),
            offline: vec![false; cfg.trees()],
            unjudged_accounting: false,
        };
        if cfg.init == InitMode::AllocAll {
            let whole = n / HUGE_FRAMES;
            for h in 0..whole {
                m.cells[h * HUGE_FRAMES..(h + 1) * HUGE_FRAMES].fill(WHOLE);
                m.held.insert(h * HUGE_FRAMES, HUGE_ORDER);
            }
            for f in whole * HUGE_FRAMES..n {
                m.cells[f] = SMALL;
                m.held.insert(f, 0);
            }
        }
        m
    }

    pub fn trees(&self) -> usize {
        self.frames.div_ceil(TREE_FRAMES)
    }
    pub fn huges(&self) -> usize {
        self.frames.div_ceil(HUGE_FRAMES)
    }
    pub fn tree_range(&self, t: usize) -> std::ops::Range<usize> {
        t * TREE_FRAMES..((t + 1) * TREE_FRAMES).min(self.frames)
    }
    pub fn huge_range(&self, h: usize) -> std::ops::Range<usize> {
        h * HUGE_FRAMES..((h + 1) * HUGE_FRAMES).min(self.frames)
    }
    pub fn free_in(&self, r: std::ops::Range<usize>) -> usize {
        self.cells[r].iter().filter(|&&c| c == FREE).count()
    }
    pub fn free_total(&self) -> usize {
        self.free_in(0..self.frames)
    }
    pub fn tree_free(&self, t: usize) -> usize {
        self.free_in(self.tree_range(t))
    }
    /// Number of entirely free, entirely managed huge frames
    pub fn free_huge(&self) -> usize {
        (0..self.frames / HUGE_FRAMES)
            .filter(|&h| self.free_in(self.huge_range(h)) == HUGE_FRAMES)
            .count()
    }
    pub fn free_trees(&self) -> usize {
        (0..self.frames / TREE_FRAMES)
            .filter(|&t| self.tree_free(t) == TREE_FRAMES)
            .count()
    }
    pub fn any_offline(&self) -> bool {
        self.offline.iter().any(|&o| o)
    }
    /// Free frames outside offline trees
    pub fn free_online(&self) -> usize {
        (0..self.trees())
            .filter(|&t| !self.offline[t])
            .map(|t| self.tree_free(t))
            .sum()
    }
    pub fn in_range(&self, frame: usize, order: usize) -> bool {
        order <= TREE_ORDER && frame % (1 << order) == 0 && frame + (1 << order) <= self.frames
    }
    pub fn block_free(&self, frame: usize, order: usize) -> bool {
        self.in_range(frame, order) && self.cells[frame..frame + (1 << order)].iter().all(|&c| c == FREE)
    }
    pub fn block_allocated(&self, frame: usize, order: usize) -> bool {
        self.in_range(frame, order) && self.cells[frame..frame + (1 << order)].iter().all(|&c| c != FREE)
    }

    /// Does the ownership model allow this free? (arguments are assumed valid)
    pub fn free_ok(&self, frame: usize, order: usize) -> bool {
        if !self.in_range(frame, order) {
            return false;
        }
        let cells = &self.cells[frame..frame + (1 << order)];
        if order >= HUGE_ORDER {
            cells.iter().all(|&c| c == WHOLE)
        } else {
            cells.iter().all(|&c| c != FREE)
        }
    }

    /// Apply a free that the model allows
    pub fn apply_free(&mut self, frame: usize, order: usize) {
        debug_assert!(self.free_ok(frame, order));
        let len = 1usize << order;
        if order < HUGE_ORDER && self.cells[frame] == WHOLE {
            // split
            let h = frame / HUGE_FRAMES;
            let r = self.huge_range(h);
            self.cells[r].fill(SMALL);
        }
        self.cells[frame..frame + len].fill(FREE);
        self.release_held(frame, order);
    }

    /// Remove [frame, frame+2^order) from the held set, splitting covering blocks
    /// into their remaining buddies and dropping covered ones.
    pub fn release_held(&mut self, frame: usize, order: usize) {
        let len = 1usize << order;
        // covering block?
        let cover = self
            .held
            .range(..=frame)
            .next_back()
            .map(|(&s, &o)| (s, o))
            .filter(|&(s, o)| s + (1 << o) >= frame + len && (1usize << o) >= len);
        if let Some((s, o)) = cover {
            self.held.remove(&s);
            self.derived.remove(&s);
            // re-add buddies on the path from the block down to the freed part
            let mut cur_s = s;
            let mut cur_o = o;
            while cur_o > order {
                cur_o -= 1;
                let half = 1usize << cur_o;
                if frame < cur_s + half {
                    self.held.insert(cur_s + half, cur_o);
                    self.derived.insert(cur_s + half);
                } else {
                    self.held.insert(cur_s, cur_o);
                    self.derived.insert(cur_s);
                    cur_s += half;
                }
            }
            return;
        }
        // otherwise drop all held blocks inside
        let inside: Vec<usize> = self
            .held
            .range(frame..frame + len)
            .map(|(&s, _)| s)
            .collect();
        for s in inside {
            self.held.remove(&s);
            self.derived.remove(&s);
        }
    }

    /// Check and apply a successful allocation. Returns an error text on violation.
    pub fn apply_alloc(&mut self, frame: usize, order: usize) -> Result<(), String> {
        let len = 1usize << order;
        if frame % len != 0 {
            return Err(format!("block {frame} o{order} misaligned"));
        }
        if frame + len > self.frames {
            return Err(format!(
                "block {frame} o{order} exceeds managed range {}",
                self.frames
            ));
        }
        if let Some(i) = self.cells[frame..frame + len].iter().position(|&c| c != FREE) {
            return Err(format!(
                "block {frame} o{order} overlaps allocated frame {}",
                frame + i
            ));
        }
        let v = if order >= HUGE_ORDER { WHOLE } else { SMALL };
        self.cells[frame..frame + len].fill(v);
        self.held.insert(frame, order);
        self.derived.remove(&frame);
        Ok(())
    }
}

// ---------------------------------------------------------------------------
// Alphabet
// ---------------------------------------------------------------------------

#[derive(Clone, Debug)]
pub struct Profile {
    pub name: &'static str,
    pub orders: Vec<usize>,
    /// request every configured class for every order (else only the natural one + one cross)
    pub all_classes: bool,
    /// every slot index and none (else slot 0, none and the last slot)
    pub all_locals: bool,
    pub targeted: bool,
    pub bad_frees: bool,
    pub part_frees: bool,
    pub drain: bool,
    pub change_class: bool,
    pub offline: bool,
    /// C09: tree changes naming any tree id (including out of range) with any operation
    pub wild_change: bool,
    pub queries: bool,
    /// maximal number of held blocks offered for frees
    pub max_held: usize,
}

pub fn std_orders() -> Vec<usize> {
    let mut o = vec![0, 1, 3, 6, 7, 8, HUGE_ORDER];
    if HUGE_ORDER + 1 <= TREE_ORDER {
        o.push(HUGE_ORDER + 1);
    }
    if !o.contains(&TREE_ORDER) {
        o.push(TREE_ORDER);
    }
    o.retain(|&x| x <= TREE_ORDER);
    o.sort();
    o.dedup();
    o
}

impl Profile {
    pub fn c02() -> Self {
        Self {
            name: "c02",
            orders: std_orders(),
            all_classes: false,
            all_locals: false,
            targeted: true,
            bad_frees: true,
            part_frees: true,
            drain: true,
            change_class: true,
            offline: false,
            wild_change: false,
            queries: false,
            max_held: 4,
        }
    }
    pub fn c15() -> Self {
        Self {
            name: "c15",
            orders: vec![0, 6, HUGE_ORDER, TREE_ORDER],
            all_classes: false,
            all_locals: false,
            targeted: true,
            bad_frees: false,
            part_frees: false,
            drain: true,
            change_class: true,
            offline: true,
            wild_change: false,
            queries: false,
            max_held: 2,
        }
    }
    pub fn c09() -> Self {
        Self {
            name: "c09",
            orders: vec![0, 6, 8, HUGE_ORDER, TREE_ORDER],
            all_classes: true,
            all_locals: true,
            targeted: true,
            bad_frees: false,
            part_frees: true,
            drain: true,
            change_class: true,
            offline: true,
            wild_change: true,
            queries: true,
            max_held: 3,
        }
    }
    /// small alphabet for deep searches
    pub fn small() -> Self {
        Self {
            name: "small",
            orders: vec![0, 7, HUGE_ORDER],
            all_classes: false,
            all_locals: false,
            targeted: false,
            bad_frees: false,
            part_frees: true,
            drain: true,
            change_class: false,
            offline: false,
            wild_change: false,
            queries: false,
            max_held: 3,
        }
    }
}

fn locals_for(spec: &ClassingSpec, class: u8, all: bool) -> Vec<Option<usize>> {
    let n = spec.slots(class).unwrap_or(0);
    let mut v = vec![];
    if n > 0 {
        v.push(Some(0));
    }
    v.push(None);
    if all {
        for i in 1..n {
            v.push(Some(i));
        }
    } else if n > 1 {
        v.push(Some(n - 1));
    }
    v
}

/// The operations offered in a state. Ordered simplest first.
pub fn alphabet(m: &Model, cfg: &Config, p: &Profile) -> Vec<Op> {
    let spec = &cfg.classing;
    let mut ops: Vec<Op> = Vec::new();
    let mut push = |op: Op| {
        if !ops.contains(&op) {
            ops.push(op);
        }
    };
    let n = m.frames;
    let trees = m.trees();

    // --- untargeted gets
    for &order in &p.orders {
        let classes: Vec<u8> = if p.all_classes {
            spec.classes.iter().map(|c| c.0).collect()
        } else {
            let nat = spec.natural_class(order);
            let mut v = vec![nat];
            // one cross-class request: the highest configured class for small orders,
            // the lowest for huge ones
            let cross = if order >= HUGE_ORDER {
                spec.classes.first().unwrap().0
            } else {
                spec.classes.last().unwrap().0
            };
            if cross != nat && (order == 0 || order == HUGE_ORDER) {
                v.push(cross);
            }
            v
        };
        for class in classes {
            for local in locals_for(spec, class, p.all_locals) {
                push(Op::Get {
                    order,
                    class,
                    local,
                    target: None,
                });
            }
        }
    }

    // --- frees of held blocks
    let held: Vec<(usize, usize)> = m.held.iter().map(|(&s, &o)| (s, o)).collect();
    let mut chosen: Vec<(usize, usize)> = Vec::new();
    if held.len() <= p.max_held {
        chosen.extend(held.iter().copied());
    } else {
        // first ones, the last one
        chosen.extend(held.iter().take(p.max_held - 1).copied());
        chosen.push(*held.last().unwrap());
    }
    for &(s, o) in &chosen {
        let class = spec.natural_class(o);
        let locals = if p.all_locals {
            locals_for(spec, class, true)
        } else {
            locals_for(spec, class, false).into_iter().take(2).collect()
        };
        for local in locals {
            push(Op::Put {
                frame: s,
                order: o,
                class,
                local,
            });
        }
        if p.all_classes {
            for c in &spec.classes {
                if c.0 != class {
                    push(Op::Put {
                        frame: s,
                        order: o,
                        class: c.0,
                        local: locals_for(spec, c.0, false)[0],
                    });
                }
            }
        }
        if p.part_frees && o > 0 {
            // first / middle / last part at a few smaller orders
            let mut sub = vec![o - 1, 0];
            if o > 6 {
                sub.push(6);
            }
            if o > HUGE_ORDER {
                sub.push(HUGE_ORDER);
            }
            sub.sort();
            sub.dedup();
            for so in sub {
                let parts = 1usize << (o - so);
                let mut idx = vec![0, parts / 2, parts - 1];
                idx.dedup();
                for i in idx {
                    let class = spec.natural_class(so);
                    push(Op::Put {
                        frame: s + i * (1 << so),
                        order: so,
                        class,
                        local: locals_for(spec, class, false)[0],
                    });
                }
            }
        }
    }

    // --- targeted gets
    if p.targeted {
        let mut targets: Vec<(usize, usize)> = Vec::new(); // (frame, order)
        for t in 0..trees {
            let s = t * TREE_FRAMES;
            targets.push((s, 0));
            targets.push((s, HUGE_ORDER));
            if t == trees - 1 || t == 0 {
                targets.push((s, 6));
                targets.push((s, TREE_ORDER));
                // last frame / last huge of the tree
                let end = ((t + 1) * TREE_FRAMES).min(n);
                targets.push((end - 1, 0));
                if end >= HUGE_FRAMES {
                    targets.push(((end - HUGE_FRAMES) / HUGE_FRAMES * HUGE_FRAMES, HUGE_ORDER));
                }
            }
        }
        // the last aligned blocks of the sub-row orders in the managed range (single
        // compare-exchange on a narrower integer)
        for o in if p.wild_change { vec![3usize, 4, 5, 6] } else { vec![] } {
            let len = 1usize << o;
            if n >= len {
                targets.push(((n - len) / len * len, o));
            }
            if n >= 2 * HUGE_FRAMES {
                targets.push((n / HUGE_FRAMES * HUGE_FRAMES - HUGE_FRAMES + len, o));
            }
        }
        // inside / next to held blocks
        for &(s, o) in chosen.iter().take(2) {
            targets.push((s, 0));
            let len = 1usize << o;
            if o > 0 {
                targets.push((s + len / 2, 0));
            }
            targets.push((s + len, 0));
            targets.push((s / 64 * 64 + 64, 6));
            // blocks of the multi-row orders around the held block (partially used rows)
            for o in [6usize, 7, 8] {
                if o < HUGE_ORDER {
                    let b = s & !((1usize << o) - 1);
                    targets.push((b, o));
                    targets.push((b + (1 << o), o));
                    if b >= 1 << o {
                        targets.push((b - (1 << o), o));
                    }
                }
            }
        }
        for (f, o) in targets {
            if !m.in_range(f, o) {
                continue;
            }
            let class = spec.natural_class(o);
            let locals = locals_for(spec, class, false);
            push(Op::Get {
                order: o,
                class,
                local: locals[0],
                target: Some(f),
            });
            if p.all_locals && locals.len() > 1 {
                push(Op::Get {
                    order: o,
                    class,
                    local: locals[1],
                    target: Some(f),
                });
            }
        }
    }

    // --- frees the model forbids
    if p.bad_frees {
        let mut bad: Vec<(usize, usize)> = Vec::new();
        // a never allocated frame and huge frame
        if let Some(f) = m.cells.iter().position(|&c| c == FREE) {
            bad.push((f, 0));
            bad.push((f / 64 * 64, 6));
            bad.push((f / HUGE_FRAMES * HUGE_FRAMES, HUGE_ORDER));
        }
        for &(s, o) in chosen.iter().take(3) {
            // parent of the block (spanning two held blocks, or one frame missing)
            if o < TREE_ORDER {
                let ps = s & !((1usize << (o + 1)) - 1);
                bad.push((ps, o + 1));
            }
            // a split/small huge frame at huge order
            if o < HUGE_ORDER {
                bad.push((s / HUGE_FRAMES * HUGE_FRAMES, HUGE_ORDER));
                // the enclosing row block
                if o < 6 {
                    bad.push((s / 64 * 64, 6));
                }
            }
            if o > HUGE_ORDER {
                // fine: freeing one huge frame of a larger block is allowed
                bad.push((s, HUGE_ORDER));
            }
        }
        for (f, o) in bad {
            if !m.in_range(f, o) {
                continue;
            }
            let class = spec.natural_class(o);
            push(Op::Put {
                frame: f,
                order: o,
                class,
                local: locals_for(spec, class, false)[0],
            });
        }
    }

    if p.drain {
        push(Op::Drain);
    }

    // --- tree changes
    if p.change_class {
        for t in 0..trees {
            for c in &spec.classes {
                push(Op::Change {
                    id: Some(t),
                    mclass: None,
                    mfree: 0,
                    class: Some(c.0),
                    op: None,
                });
            }
        }
        // by match: first tree of class X with at least half free -> class Y
        let first = spec.classes.first().unwrap().0;
        let last = spec.classes.last().unwrap().0;
        push(Op::Change {
            id: None,
            mclass: Some(last),
            mfree: TREE_FRAMES / 2,
            class: Some(first),
            op: None,
        });
    }
    if p.offline {
        for t in 0..trees {
            let r = m.tree_range(t);
            let entirely_free = m.free_in(r.clone()) == r.len();
            if entirely_free && !m.offline[t] {
                push(Op::Change {
                    id: Some(t),
                    mclass: None,
                    mfree: 0,
                    class: None,
                    op: Some(TreeOp::Offline),
                });
            }
            push(Op::Change {
                id: Some(t),
                mclass: None,
                mfree: 0,
                class: None,
                op: Some(TreeOp::Online),
            });
            if m.offline[t] {
                push(Op::Change {
                    id: Some(t),
                    mclass: None,
                    mfree: 0,
                    class: Some(spec.classes.first().unwrap().0),
                    op: Some(TreeOp::Online),
                });
            }
        }
        for c in &spec.classes {
            push(Op::Change {
                id: None,
                mclass: Some(c.0),
                mfree: TREE_FRAMES,
                class: None,
                op: Some(TreeOp::Offline),
            });
            push(Op::Change {
                id: None,
                mclass: Some(c.0),
                mfree: 0,
                class: Some(spec.classes.last().unwrap().0),
                op: Some(TreeOp::Online),
            });
        }
    }
    if p.wild_change {
        // every existing tree ("naming any tree"); ids of nonexistent trees are not
        // valid parameters and are not offered
        for t in 0..trees {
            for op in [None, Some(TreeOp::Online), Some(TreeOp::Offline)] {
                push(Op::Change {
                    id: Some(t),
                    mclass: None,
                    mfree: 0,
                    class: Some(spec.default),
                    op,
                });
            }
        }
        push(Op::Change {
            id: None,
            mclass: None,
            mfree: 1,
            class: None,
            op: Some(TreeOp::Offline),
        });
    }
    if p.queries {
        // `validate` is not offered: it asserts by design while trees are offline
        // (judged by C04 as a state oracle instead)
        push(Op::Queries);
    }
    ops
}
