//! SEQ: explicit-state breadth-first search over sequential histories of the real
//! allocator (DESIGN §4.2). State = exact bytes of the three buffers + model.

use std::collections::{BTreeMap, HashSet};
use std::hash::{Hash, Hasher};
use std::sync::Mutex;
use std::sync::atomic::{AtomicUsize, Ordering};
use std::time::Instant;

use serde_json::{Value, json};

use crate::common::{Config, Op, Res, Sut, hash128};
use crate::model::{Model, Profile, alphabet};
use crate::oracle::{self, ClassTable, Violation};
use crate::report::Collector;

#[derive(Clone, Debug, Default)]
pub struct Probes {
    pub c07: bool,
    pub c07_depth2: bool,
    pub c10: bool,
    pub c05: bool,
    pub c17_zone: bool,
    pub blocks: bool,
    /// C15: exhaust memory on a scratch copy; exactly the online free frames are allocatable
    pub c15_fill: bool,
    /// C18: byte-exact bounds monitor on every hooked atomic access
    pub bounds: bool,
    /// place the buffers directly after the leading guard page instead of before the trailing one
    pub flush_start: bool,
}

#[derive(Clone)]
pub struct SeqParams {
    /// property this run decides: only its violations (and model divergence) stop
    /// the expansion of a state
    pub prop: String,
    pub profile: Profile,
    pub depth: usize,
    /// stop expanding when this many distinct states were found (cap, reported)
    pub max_states: usize,
    pub probes: Probes,
    /// wall clock cap in seconds for one configuration
    pub max_secs: f64,
}

#[derive(Clone, Debug)]
pub struct State {
    pub bytes: Vec<u8>,
    pub model: Model,
    pub path: Vec<Op>,
}

#[derive(Default, Clone, Debug)]
pub struct SeqStats {
    pub configs: u64,
    pub states: u64,
    pub transitions: u64,
    pub depth_completed: usize,
    pub capped: u64,
    pub panics: u64,
    pub probe_evals: BTreeMap<String, u64>,
    /// op kind / outcome -> count (vacuity guard)
    pub outcomes: BTreeMap<String, u64>,
    pub samples: Vec<Value>,
    pub per_config: Vec<Value>,
    pub crash_points: u64,
    pub crash_distinct: u64,
    pub hooked_steps: u64,
}
impl SeqStats {
    pub fn merge(&mut self, o: SeqStats) {
        self.configs += o.configs;
        self.states += o.states;
        self.transitions += o.transitions;
        self.capped += o.capped;
        self.panics += o.panics;
        self.crash_points += o.crash_points;
        self.crash_distinct += o.crash_distinct;
        self.hooked_steps += o.hooked_steps;
        for (k, v) in o.probe_evals {
            *self.probe_evals.entry(k).or_default() += v;
        }
        for (k, v) in o.outcomes {
            *self.outcomes.entry(k).or_default() += v;
        }
        if self.samples.len() < 6 {
            self.samples.extend(o.samples.into_iter().take(2));
        }
        self.per_config.extend(o.per_config);
    }
}

pub fn op_kind(op: &Op) -> &'static str {
    match op {
        Op::Get { target: None, .. } => "get",
        Op::Get { .. } => "get_at",
        Op::Put { .. } => "put",
        Op::Drain => "drain",
        Op::Change { .. } => "change",
        Op::Validate => "validate",
        Op::Queries => "queries",
    }
}
pub fn res_kind(r: &Res) -> &'static str {
    match r {
        Res::Got(..) | Res::Done => "ok",
        Res::Err(_) => "err",
        Res::Panic(_) => "panic",
    }
}

pub fn state_key(bytes: &[u8], m: &Model) -> u128 {
    let mut h = std::collections::hash_map::DefaultHasher::new();
    m.hash(&mut h);
    hash128(bytes, h.finish())
}

pub fn seq_replay(cfg: &Config, path: &[Op], last: Option<&Op>, extra: Value) -> Value {
    let mut ops: Vec<Value> = path.iter().map(|o| o.json()).collect();
    if let Some(l) = last {
        ops.push(l.json());
    }
    json!({"engine": "seq", "config": cfg.json(), "ops": ops,
        "ops_text": path.iter().chain(last).map(|o| o.short()).collect::<Vec<_>>(),
        "extra": extra})
}

/// Explore one configuration
pub fn explore(cfg: &Config, p: &SeqParams, col: &mut Collector) -> SeqStats {
    let start = Instant::now();
    let mut stats = SeqStats {
        configs: 1,
        ..Default::default()
    };
    if p.probes.bounds {
        crate::guard::set_inflight(&seq_replay(cfg, &[], None, json!({"flush_start": p.probes.flush_start})));
    }
    let sut = match Sut::try_new(cfg, cfg.init.init(), !p.probes.flush_start) {
        Ok(s) => s,
        Err(r) => {
            if let Res::Panic(msg) = &r {
                col.add(
                    Violation::new(
                        "C09",
                        format!("panic: {}", crate::common::panic_signature(msg)),
                        format!("construction of {} panicked: {msg}", cfg.describe()),
                    ),
                    || seq_replay(cfg, &[], None, json!({"at": "construction"})),
                );
                stats.panics += 1;
            } else {
                col.add(
                    Violation::new(
                        "C09",
                        "construction failed",
                        format!("{} -> {}", cfg.describe(), r.short()),
                    ),
                    || seq_replay(cfg, &[], None, json!({"at": "construction"})),
                );
            }
            return stats;
        }
    };
    let classes = ClassTable::new(sut.policy);
    let model = Model::new(cfg);
    let mut rec = if p.probes.c05 {
        crate::crash::Recoverer::new(cfg)
    } else {
        None
    };
    let mut visited: HashSet<u128> = HashSet::new();
    let mut viol: Vec<Violation> = Vec::new();

    let s0 = State {
        bytes: sut.bufs.snapshot(),
        model,
        path: vec![],
    };
    visited.insert(state_key(&s0.bytes, &s0.model));
    stats.states = 1;
    oracle::state(&s0.model, &sut, true, &mut viol);
    crate::probes::on_state(&s0, cfg, &sut, p, &mut stats, &mut viol);
    for v in viol.drain(..) {
        col.add(v, || seq_replay(cfg, &[], None, json!({"at": "initial state"})));
    }

    let mut frontier = vec![s0];
    let mut bytes2: Vec<u8> = Vec::new();
    let mut capped = false;
    // memory cap: the stored states of one configuration (current level + next level) may
    // use at most VERIF_SEQ_MEM_MB (default 16 GiB / worker threads); beyond it the
    // configuration is reported as capped instead of exhausting the machine's memory
    let mem_limit = mem_limit_per_config();
    let state_size = |s: &State| s.bytes.len() + s.model.cells.len() + 64 * s.model.held.len() + 48 * s.path.len() + 256;
    let mut mem_frontier: usize = frontier.iter().map(state_size).sum();
    'outer: for depth in 1..=p.depth {
        let mut next: Vec<State> = Vec::new();
        let mut mem_next = 0usize;
        for st in &frontier {
            let ops = alphabet(&st.model, cfg, &p.profile);
            for op in &ops {
                if stats.states as usize >= p.max_states
                    || start.elapsed().as_secs_f64() > p.max_secs
                    || mem_frontier + mem_next > mem_limit
                {
                    capped = true;
                    break 'outer;
                }
                sut.bufs.restore(&st.bytes);
                let before = matches!(op, Op::Change { .. }).then(|| oracle::tree_view(&sut));
                if rec.is_some() || p.probes.bounds {
                    crate::crash::begin(&sut, rec.is_some(), p.probes.bounds);
                }
                let res = sut.apply(op);
                let log = if rec.is_some() || p.probes.bounds {
                    let (log, oob, steps) = crate::crash::end();
                    stats.hooked_steps += steps;
                    if let Some(ev) = oob {
                        viol.push(Violation::new(
                            "C18",
                            "atomic access outside the metadata buffers",
                            format!("{}: {:?} at {:#x} size {}", op.short(), ev.kind, ev.addr, ev.size),
                        ));
                    }
                    rec.is_some().then_some(log)
                } else {
                    None
                };
                stats.transitions += 1;
                *stats
                    .outcomes
                    .entry(format!("{}:{}", op_kind(op), res_kind(&res)))
                    .or_default() += 1;
                let mut m2 = st.model.clone();
                oracle::step(
                    &mut m2,
                    cfg,
                    &classes,
                    op,
                    &res,
                    before.as_ref(),
                    &sut,
                    &mut viol,
                );
                if res.is_panic() {
                    stats.panics += 1;
                } else {
                    if let (Some(log), Some(rec)) = (log, rec.as_mut()) {
                        crate::crash::check_seq_transition(
                            rec, &sut, &st.model, &m2, op, log, &mut viol,
                        );
                    }
                    sut.bufs.snapshot_into(&mut bytes2);
                    let key = state_key(&bytes2, &m2);
                    if visited.insert(key) {
                        stats.states += 1;
                        oracle::state(&m2, &sut, true, &mut viol);
                        let mut path = st.path.clone();
                        path.push(op.clone());
                        let ns = State {
                            bytes: bytes2.clone(),
                            model: m2,
                            path,
                        };
                        let blocked = |viol: &Vec<Violation>| {
                            viol.iter()
                                .any(|v| v.prop == p.prop || v.prop == "C02" || v.prop == "C01")
                        };
                        if !blocked(&viol) {
                            crate::probes::on_state(&ns, cfg, &sut, p, &mut stats, &mut viol);
                        }
                        if stats.samples.len() < 2 && depth == p.depth.min(3) {
                            stats.samples.push(json!({"config": cfg.describe(),
                                "history": ns.path.iter().map(|o| o.short()).collect::<Vec<_>>(),
                                "last_result": res.short()}));
                        }
                        // states violating the decided property (or diverging from the
                        // model) are not expanded further
                        if !blocked(&viol) {
                            mem_next += state_size(&ns);
                            next.push(ns);
                        }
                    }
                }
                for v in viol.drain(..) {
                    col.add(v, || seq_replay(cfg, &st.path, Some(op), json!({})));
                }
            }
        }
        stats.depth_completed = depth;
        frontier = next;
        mem_frontier = mem_next;
        if frontier.is_empty() {
            break;
        }
    }
    if capped {
        stats.capped = 1;
    }
    if let Some(rec) = &rec {
        stats.crash_points = rec.points;
        stats.crash_distinct = rec.distinct;
    }
    stats.per_config.push(json!({"config": cfg.describe(), "states": stats.states,
        "transitions": stats.transitions, "depth_completed": stats.depth_completed,
        "capped": capped, "secs": start.elapsed().as_secs_f64()}));
    stats
}

fn mem_limit_per_config() -> usize {
    let workers = std::thread::available_parallelism().map(|n| n.get()).unwrap_or(4);
    let mb = std::env::var("VERIF_SEQ_MEM_MB")
        .ok()
        .and_then(|s| s.parse::<usize>().ok())
        .unwrap_or(16 * 1024 / workers);
    mb * 1024 * 1024
}

/// Run many configurations on all cores
pub fn explore_all(cfgs: &[Config], p: &SeqParams) -> (SeqStats, Collector) {
    let next = AtomicUsize::new(0);
    let result = Mutex::new((SeqStats::default(), Collector::default(), usize::MAX));
    let workers = std::thread::available_parallelism()
        .map(|n| n.get())
        .unwrap_or(4)
        .min(cfgs.len().max(1));
    std::thread::scope(|s| {
        for _ in 0..workers {
            std::thread::Builder::new().stack_size(crate::common::WORKER_STACK).spawn_scoped(s, || {
                loop {
                    let i = next.fetch_add(1, Ordering::SeqCst);
                    if i >= cfgs.len() {
                        break;
                    }
                    let mut col = Collector::default();
                    let st = explore(&cfgs[i], p, &mut col);
                    let mut r = result.lock().unwrap();
                    r.2 = r.2.min(st.depth_completed);
                    r.0.merge(st);
                    r.1.merge(col);
                }
            }).expect("spawn worker");
        }
    });
    let (mut stats, col, min_depth) = result.into_inner().unwrap();
    stats.depth_completed = if min_depth == usize::MAX { 0 } else { min_depth };
    (stats, col)
}

/// Re-execute a replay artefact without the explorer. Returns the result strings.
pub fn replay(v: &Value) -> Result<Vec<String>, String> {
    let cfg = Config::from_json(&v["config"]).ok_or("bad config")?;
    let ops: Vec<Op> = v["ops"]
        .as_array()
        .ok_or("no ops")?
        .iter()
        .map(Op::from_json)
        .collect::<Option<Vec<_>>>()
        .ok_or("bad op")?;
    let mut out = vec![];
    let sut = match Sut::try_new(&cfg, cfg.init.init(), true) {
        Ok(s) => s,
        Err(r) => {
            out.push(format!("construction -> {}", r.short()));
            return Ok(out);
        }
    };
    let classes = ClassTable::new(sut.policy);
    let mut m = Model::new(&cfg);
    let mut viol = vec![];
    for op in &ops {
        let before = matches!(op, Op::Change { .. }).then(|| oracle::tree_view(&sut));
        let res = sut.apply(op);
        out.push(format!("{} -> {}", op.short(), res.short()));
        oracle::step(
            &mut m,
            &cfg,
            &classes,
            op,
            &res,
            before.as_ref(),
            &sut,
            &mut viol,
        );
        if res.is_panic() {
            break;
        }
        oracle::state(&m, &sut, true, &mut viol);
        for v in viol.drain(..) {
            out.push(format!("  violates {}: {} ({})", v.prop, v.clause, v.detail));
        }
    }
    for v in viol.drain(..) {
        out.push(format!("  violates {}: {} ({})", v.prop, v.clause, v.detail));
    }
    Ok(out)
}
