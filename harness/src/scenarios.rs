//! Systematic generation of interleaving scenarios (DESIGN §4.1, §6 C01/C03)

use llfree::{HUGE_FRAMES, HUGE_ORDER, TREE_FRAMES, TREE_HUGE, TREE_ORDER};

use crate::common::{ClassingSpec, Config, InitMode, Op, Res, Sut, TreeOp};
use crate::ilv::{Scenario, TOp};

fn g(spec: &ClassingSpec, order: usize, local: Option<usize>) -> Op {
    Op::Get {
        order,
        class: spec.natural_class(order),
        local,
        target: None,
    }
}
fn ga(spec: &ClassingSpec, order: usize, local: Option<usize>, target: usize) -> Op {
    Op::Get {
        order,
        class: spec.natural_class(order),
        local,
        target: Some(target),
    }
}
fn p(spec: &ClassingSpec, frame: usize, order: usize, local: Option<usize>) -> Op {
    Op::Put {
        frame,
        order,
        class: spec.natural_class(order),
        local,
    }
}

/// Run a set-up and return the results (to learn which frames it allocates)
pub fn probe(cfg: &Config, setup: &[Op]) -> Vec<Res> {
    let sut = Sut::new(cfg);
    setup.iter().map(|op| sut.apply(op)).collect()
}

/// Frame of a successful set-up allocation (None: the family does not fit this geometry)
fn got(r: &Res) -> Option<usize> {
    match r {
        Res::Got(f, _) => Some(*f),
        _ => None,
    }
}

/// An op of a thread alphabet; `unique` ops (frees of a pre-assigned block) may be
/// given to one thread only
#[derive(Clone)]
pub struct AOp {
    pub ops: Vec<TOp>,
    pub unique: bool,
}
fn a(op: Op) -> AOp {
    AOp {
        ops: vec![TOp::Do(op)],
        unique: false,
    }
}
fn u(op: Op) -> AOp {
    AOp {
        ops: vec![TOp::Do(op)],
        unique: true,
    }
}
fn seq2(x: TOp, y: TOp) -> AOp {
    AOp {
        ops: vec![x, y],
        unique: false,
    }
}

/// All unordered pairs (with repetition for non-unique ops)
pub fn pairs(name: &str, cfg: &Config, setup: &[Op], alpha: &[AOp]) -> Vec<Scenario> {
    let mut out = vec![];
    for i in 0..alpha.len() {
        for j in i..alpha.len() {
            if i == j && alpha[i].unique {
                continue;
            }
            out.push(Scenario {
                name: format!("{name}/pair{i}x{j}"),
                cfg: cfg.clone(),
                setup: setup.to_vec(),
                threads: vec![alpha[i].ops.clone(), alpha[j].ops.clone()],
            });
        }
    }
    out
}

/// All unordered triples
pub fn triples(name: &str, cfg: &Config, setup: &[Op], alpha: &[AOp]) -> Vec<Scenario> {
    let mut out = vec![];
    for i in 0..alpha.len() {
        for j in i..alpha.len() {
            for k in j..alpha.len() {
                if (i == j && alpha[i].unique) || (j == k && alpha[j].unique) {
                    continue;
                }
                out.push(Scenario {
                    name: format!("{name}/triple{i}x{j}x{k}"),
                    cfg: cfg.clone(),
                    setup: setup.to_vec(),
                    threads: vec![
                        alpha[i].ops.clone(),
                        alpha[j].ops.clone(),
                        alpha[k].ops.clone(),
                    ],
                });
            }
        }
    }
    out
}

fn orders_all() -> Vec<usize> {
    let mut v = vec![0, 6, 7, 8, HUGE_ORDER];
    if HUGE_ORDER < TREE_ORDER {
        v.push(HUGE_ORDER + 1);
    }
    if !v.contains(&TREE_ORDER) {
        v.push(TREE_ORDER);
    }
    v.retain(|&o| o <= TREE_ORDER);
    v
}

/// Scenarios whose set-up is a state reached by the sequential search ("start from
/// non-initial states"): every distinct state within `depth` calls of the initial state
/// becomes a set-up; the threads run every pair of a small state dependent alphabet.
pub fn frontier(name: &str, cfg: &Config, depth: usize, max_states: usize) -> Vec<Scenario> {
    use crate::model::{Model, Profile, alphabet};
    use crate::oracle::ClassTable;
    let sut = Sut::new(cfg);
    let classes = ClassTable::new(sut.policy);
    let mut profile = Profile::small();
    profile.max_held = 2;
    let mut seen = std::collections::HashSet::new();
    let m0 = Model::new(cfg);
    let b0 = sut.bufs.snapshot();
    seen.insert(crate::seq::state_key(&b0, &m0));
    let mut all: Vec<(Vec<Op>, Model)> = vec![(vec![], m0.clone())];
    let mut frontier_states = vec![(b0, m0, Vec::<Op>::new())];
    let mut bytes = Vec::new();
    'outer: for _ in 0..depth {
        let mut next = vec![];
        for (b, m, path) in &frontier_states {
            for op in alphabet(m, cfg, &profile) {
                sut.bufs.restore(b);
                let res = sut.apply(&op);
                if res.is_panic() {
                    continue;
                }
                let mut m2 = m.clone();
                let mut v = vec![];
                crate::oracle::step(&mut m2, cfg, &classes, &op, &res, None, &sut, &mut v);
                if !v.is_empty() {
                    continue;
                }
                sut.bufs.snapshot_into(&mut bytes);
                if seen.insert(crate::seq::state_key(&bytes, &m2)) {
                    let mut p2 = path.clone();
                    p2.push(op.clone());
                    all.push((p2.clone(), m2.clone()));
                    next.push((bytes.clone(), m2, p2));
                    if all.len() >= max_states {
                        break 'outer;
                    }
                }
            }
        }
        frontier_states = next;
    }
    let spec = &cfg.classing;
    let mut out = vec![];
    for (si, (path, m)) in all.iter().enumerate() {
        let mut alpha = vec![
            a(g(spec, 0, Some(0))),
            a(g(spec, 7, Some(0))),
            a(g(spec, HUGE_ORDER, Some(0))),
            a(g(spec, 0, None)),
            a(Op::Drain),
        ];
        let held: Vec<(usize, usize)> = m.held.iter().map(|(&s, &o)| (s, o)).collect();
        if let Some(&(s0, o0)) = held.first() {
            alpha.push(u(p(spec, s0, o0, Some(0))));
            // a targeted allocation inside a held block (fails, must undo its counter)
            alpha.push(a(ga(spec, 0, None, s0 + (1usize << o0) - 1)));
        }
        if held.len() > 1 {
            let (s1, o1) = *held.last().unwrap();
            if o1 >= 7 {
                // two different parts of the same block
                let half = 1usize << (o1 - 1);
                alpha.push(u(p(spec, s1, o1 - 1, None)));
                alpha.push(u(p(spec, s1 + half, o1 - 1, Some(0))));
            } else {
                alpha.push(u(p(spec, s1, o1, None)));
            }
        }
        out.extend(pairs(&format!("{name}/state{si}"), cfg, path, &alpha));
    }
    out
}

/// `level`: 0 = quick, 1 = thorough (more set-ups, triples, 2x2)
pub fn generate(level: usize) -> Vec<Scenario> {
    let mut out: Vec<Scenario> = vec![];
    let s1 = ClassingSpec::simple(1);
    let s2 = ClassingSpec::simple(2);
    let mv = ClassingSpec::movable(1);
    let zr = ClassingSpec::zeroed([1, 1, 1], 1);

    // ---- F1: pairs of allocations on a fresh allocator (same slot / no slot)
    for (cfg_name, cfg) in [
        ("1tree-simple1", Config::new(TREE_FRAMES, s1.clone(), InitMode::FreeAll)),
        ("2tree-simple1", Config::new(2 * TREE_FRAMES, s1.clone(), InitMode::FreeAll)),
        ("3tree-simple2", Config::new(3 * TREE_FRAMES, s2.clone(), InitMode::FreeAll)),
    ] {
        let spec = &cfg.classing;
        let mut alpha = vec![];
        for o in orders_all() {
            alpha.push(a(g(spec, o, Some(0))));
            if o == 0 || o == HUGE_ORDER || level > 0 {
                alpha.push(a(g(spec, o, None)));
            }
        }
        if spec.slots(0) == Some(2) {
            alpha.push(a(g(spec, 0, Some(1))));
            alpha.push(a(g(spec, HUGE_ORDER, Some(1))));
        }
        alpha.push(a(Op::Drain));
        out.extend(pairs(&format!("F1-fresh-{cfg_name}"), &cfg, &[], &alpha));
    }

    // ---- F2: one huge frame left
    {
        let cfg = Config::new(TREE_FRAMES, s1.clone(), InitMode::AllocAll);
        // free exactly one huge frame (the last one of the tree)
        let last = (TREE_HUGE - 1) * HUGE_FRAMES;
        let setup = vec![p(&s1, last, HUGE_ORDER, None)];
        let mut alpha = vec![];
        for o in [0, 6, 7, 8, HUGE_ORDER] {
            alpha.push(a(g(&s1, o, Some(0))));
        }
        alpha.push(a(ga(&s1, HUGE_ORDER, None, last)));
        alpha.push(a(ga(&s1, 0, Some(0), last + 5)));
        alpha.push(a(ga(&s1, 7, None, last + 128)));
        out.extend(pairs("F2-one-huge-left", &cfg, &setup, &alpha));
    }

    // ---- F3: only two rows (128 frames) left in one huge frame
    {
        let cfg = Config::new(TREE_FRAMES, s1.clone(), InitMode::AllocAll);
        let setup = vec![
            p(&s1, 0, HUGE_ORDER, None),
            ga(&s1, 8, None, 0),
            ga(&s1, 7, None, 256),
        ];
        // rows 6 and 7 of huge frame 0 remain free
        let mut alpha = vec![];
        for o in [0, 5, 6, 7] {
            alpha.push(a(g(&s1, o, Some(0))));
        }
        alpha.push(a(g(&s1, 7, None)));
        alpha.push(a(ga(&s1, 6, None, 384)));
        alpha.push(a(ga(&s1, 6, None, 448)));
        alpha.push(a(ga(&s1, 7, None, 384)));
        out.extend(pairs("F3-two-rows-left", &cfg, &setup, &alpha));
        if level > 0 {
            out.extend(triples("F3-two-rows-left", &cfg, &setup, &alpha[..5]));
        }
    }

    // ---- F4: frees of pre-assigned blocks racing each other and allocations
    for (cfg_name, cfg) in [
        ("1tree", Config::new(TREE_FRAMES, s1.clone(), InitMode::FreeAll)),
        ("2tree", Config::new(2 * TREE_FRAMES, s1.clone(), InitMode::FreeAll)),
    ] {
        let spec = &cfg.classing;
        let setup = vec![
            g(spec, 0, Some(0)),
            g(spec, 0, Some(0)),
            g(spec, 7, Some(0)),
            g(spec, HUGE_ORDER, Some(0)),
            g(spec, 6, Some(0)),
        ];
        let r = probe(&cfg, &setup);
        let (Some(b0), Some(b1), Some(b7), Some(b9), Some(b6)) =
            (got(&r[0]), got(&r[1]), got(&r[2]), got(&r[3]), got(&r[4]))
        else {
            continue;
        };
        let alpha = vec![
            u(p(spec, b0, 0, Some(0))),
            u(p(spec, b1, 0, None)),
            u(p(spec, b7, 7, Some(0))),
            u(p(spec, b9, HUGE_ORDER, Some(0))),
            u(p(spec, b6, 6, None)),
            a(g(spec, 0, Some(0))),
            a(g(spec, 7, Some(0))),
            a(g(spec, HUGE_ORDER, Some(0))),
            a(g(spec, 0, None)),
            a(Op::Drain),
            // targeted allocations of frames that are (still) allocated: they fail and undo
            a(ga(spec, 0, None, b1)),
            a(ga(spec, 0, Some(0), b7 + 3)),
            a(ga(spec, 6, None, b6)),
        ];
        out.extend(pairs(&format!("F4-frees-{cfg_name}"), &cfg, &setup, &alpha));
    }

    // ---- F5: different parts of one whole-allocated huge frame
    {
        let cfg = Config::new(TREE_FRAMES, s1.clone(), InitMode::FreeAll);
        let setup = vec![g(&s1, HUGE_ORDER, Some(0))];
        let r = probe(&cfg, &setup);
        let h = got(&r[0]).expect("huge allocation on a fresh tree");
        let alpha = vec![
            u(p(&s1, h, 6, Some(0))),
            u(p(&s1, h + 64, 6, None)),
            u(p(&s1, h + 128, 0, Some(0))),
            u(p(&s1, h + 256, 8, None)),
            u(p(&s1, h + 192, 5, None)),
            a(g(&s1, 0, Some(0))),
            a(g(&s1, HUGE_ORDER, None)),
        ];
        out.extend(pairs("F5-split-huge", &cfg, &setup, &alpha));
        // parts below a row inside the first rows (leave partially used rows behind)
        let alpha_b = vec![
            u(p(&s1, h + 1, 0, None)),
            u(p(&s1, h + 8, 3, Some(0))),
            u(p(&s1, h + 32, 5, None)),
            u(p(&s1, h + 64, 4, Some(0))),
            u(p(&s1, h + 128, 7, None)),
            a(g(&s1, 0, Some(0))),
        ];
        out.extend(pairs("F5-split-huge-rows", &cfg, &setup, &alpha_b));
        if level > 0 {
            out.extend(triples("F5-split-huge", &cfg, &setup, &alpha[..5]));
        } else {
            out.extend(triples("F5-split-huge", &cfg, &setup, &alpha[..3]));
        }
        // parts of one huge frame of a larger (order 10) block
        if HUGE_ORDER < TREE_ORDER {
            let setup = vec![g(&s1, HUGE_ORDER + 1, Some(0))];
            let r = probe(&cfg, &setup);
            let h = got(&r[0]).expect("order 10 allocation on a fresh tree");
            let alpha = vec![
                u(p(&s1, h, HUGE_ORDER, None)),
                u(p(&s1, h + HUGE_FRAMES, 6, None)),
                u(p(&s1, h + HUGE_FRAMES + 64, 0, Some(0))),
                a(g(&s1, HUGE_ORDER, Some(0))),
            ];
            out.extend(pairs("F5-split-order10", &cfg, &setup, &alpha));
        }
    }

    // ---- F6: drain racing calls that use the reservation
    for (cfg_name, cfg) in [
        ("2tree-simple1", Config::new(2 * TREE_FRAMES, s1.clone(), InitMode::FreeAll)),
        ("3tree-movable1", Config::new(3 * TREE_FRAMES, mv.clone(), InitMode::FreeAll)),
    ] {
        let spec = &cfg.classing;
        let setup = vec![g(spec, 0, Some(0)), g(spec, 0, Some(0))];
        let r = probe(&cfg, &setup);
        let (Some(f0), Some(f1)) = (got(&r[0]), got(&r[1])) else {
            continue;
        };
        let alpha = vec![
            a(Op::Drain),
            a(g(spec, 0, Some(0))),
            a(g(spec, 6, Some(0))),
            a(g(spec, HUGE_ORDER, Some(0))),
            u(p(spec, f0, 0, Some(0))),
            u(p(spec, f1, 0, None)),
            a(ga(spec, 0, Some(0), f0 + 7)),
            a(g(spec, 0, None)),
        ];
        out.extend(pairs(&format!("F6-drain-{cfg_name}"), &cfg, &setup, &alpha));
        if level > 0 {
            out.extend(triples(&format!("F6-drain-{cfg_name}"), &cfg, &setup, &alpha[..5]));
        }
    }

    // ---- F7: tree changes racing allocations and frees
    {
        let cfg = Config::new(2 * TREE_FRAMES, zr.clone(), InitMode::FreeAll);
        let spec = &cfg.classing;
        let setup = vec![g(spec, 0, None), g(spec, HUGE_ORDER, None)];
        let r = probe(&cfg, &setup);
        let (f0, f9) = (got(&r[0]).unwrap(), got(&r[1]).unwrap());
        let ch = |id: usize, class: Option<u8>, op: Option<TreeOp>| Op::Change {
            id: Some(id),
            mclass: None,
            mfree: 0,
            class,
            op,
        };
        let alpha = vec![
            a(ch(f0 / TREE_FRAMES, Some(0), None)),
            a(ch(f0 / TREE_FRAMES, Some(2), None)),
            a(ch(1 - f0 / TREE_FRAMES, Some(2), None)),
            a(g(spec, 0, Some(0))),
            a(g(spec, HUGE_ORDER, Some(0))),
            a(Op::Get {
                order: HUGE_ORDER,
                class: 2,
                local: Some(0),
                target: None,
            }),
            u(p(spec, f0, 0, None)),
            u(p(spec, f9, HUGE_ORDER, Some(0))),
            // allocate and free again: a counter that a racing change overwrote overflows
            seq2(TOp::Do(g(spec, 0, Some(0))), TOp::PutOwn { nth: 0, part: None, local: Some(0) }),
            seq2(TOp::Do(g(spec, 0, None)), TOp::PutOwn { nth: 0, part: None, local: None }),
        ];
        out.extend(pairs("F7-change", &cfg, &setup, &alpha));
        // the same on an untouched allocator (entirely free trees)
        let alpha_fresh = vec![
            a(ch(0, Some(0), None)),
            a(ch(0, Some(2), None)),
            seq2(TOp::Do(g(spec, 0, Some(0))), TOp::PutOwn { nth: 0, part: None, local: Some(0) }),
            seq2(TOp::Do(g(spec, 0, None)), TOp::PutOwn { nth: 0, part: None, local: None }),
            seq2(TOp::Do(g(spec, HUGE_ORDER, None)), TOp::PutOwn { nth: 0, part: None, local: None }),
        ];
        out.extend(pairs("F7-change-fresh", &cfg, &[], &alpha_fresh));
    }
    // Online of a fully allocated (not offline) tree racing a free into it
    if TREE_HUGE > 1 {
        let cfg = Config::new(TREE_FRAMES, s1.clone(), InitMode::AllocAll);
        let alpha = vec![
            a(Op::Change {
                id: Some(0),
                mclass: None,
                mfree: 0,
                class: None,
                op: Some(TreeOp::Online),
            }),
            u(p(&s1, 0, HUGE_ORDER, None)),
            u(p(&s1, HUGE_FRAMES % TREE_FRAMES, 0, None)),
        ];
        out.extend(pairs("F7-online-vs-put", &cfg, &[], &alpha));
    }

    // ---- F8: frees into another slot's reserved tree
    {
        let cfg = Config::new(3 * TREE_FRAMES, s2.clone(), InitMode::FreeAll);
        let spec = &cfg.classing;
        let setup = vec![g(spec, 0, Some(0)), g(spec, 0, Some(0)), g(spec, 0, Some(1))];
        let r = probe(&cfg, &setup);
        let (a0, a1, b0) = (got(&r[0]).unwrap(), got(&r[1]).unwrap(), got(&r[2]).unwrap());
        let alpha = vec![
            u(p(spec, a0, 0, Some(1))),
            u(p(spec, a1, 0, None)),
            u(p(spec, b0, 0, Some(0))),
            a(g(spec, 0, Some(0))),
            a(g(spec, 0, Some(1))),
            a(g(spec, TREE_ORDER, Some(1))),
            a(Op::Drain),
        ];
        out.extend(pairs("F8-foreign-free", &cfg, &setup, &alpha));
    }

    // ---- F9: counter sufficient but no aligned block (undo paths)
    {
        let cfg = Config::new(TREE_FRAMES, s1.clone(), InitMode::AllocAll);
        // free every second row of huge frame 0: 256 free frames, no order-7 block
        let mut setup = vec![p(&s1, 0, HUGE_ORDER, None)];
        for row in [1usize, 3, 5, 7] {
            setup.push(ga(&s1, 6, None, row * 64));
        }
        let alpha = vec![
            a(g(&s1, 7, Some(0))),
            a(g(&s1, 7, None)),
            a(g(&s1, 6, Some(0))),
            a(g(&s1, 0, Some(0))),
            u(p(&s1, 64, 6, None)),
            u(p(&s1, 192, 6, Some(0))),
        ];
        out.extend(pairs("F9-fragmented", &cfg, &setup, &alpha));
    }
    // steal from a fragmented tree of a lower class: counter taken, lower allocation fails, undo
    {
        let cfg = Config::new(2 * TREE_FRAMES, s1.clone(), InitMode::AllocAll);
        let mut setup = vec![p(&s1, 0, HUGE_ORDER, None)];
        for row in [1usize, 3, 5, 7] {
            // class 0 without slot: the tree is demoted to class 0
            setup.push(ga(&s1, 6, None, row * 64));
        }
        let steal7 = |local| Op::Get { order: 7, class: 1, local, target: None };
        let alpha = vec![
            a(steal7(Some(0))),
            a(steal7(None)),
            a(Op::Get { order: 6, class: 1, local: Some(0), target: None }),
            a(g(&s1, 6, Some(0))),
            a(g(&s1, 0, None)),
            u(p(&s1, 64, 6, None)),
        ];
        out.extend(pairs("F9-steal-fragmented", &cfg, &setup, &alpha));
    }
    // exhaustion fallbacks: almost full allocator with reservations in two slots
    {
        let cfg = Config::new(2 * TREE_FRAMES, s2.clone(), InitMode::AllocAll);
        let spec = &cfg.classing;
        let setup = vec![
            p(spec, 0, HUGE_ORDER, None),
            g(spec, 0, Some(0)),
            p(spec, TREE_FRAMES % (2 * TREE_FRAMES), HUGE_ORDER, None),
            g(spec, 0, Some(1)),
        ];
        let alpha = vec![
            a(g(spec, 0, Some(0))),
            a(g(spec, 0, Some(1))),
            a(g(spec, HUGE_ORDER, Some(0))),
            a(g(spec, 8, Some(1))),
            a(g(spec, 0, None)),
            a(Op::Drain),
        ];
        out.extend(pairs("F9-steal-demote", &cfg, &setup, &alpha));
    }

    // ---- F12: exhausted local reservation with frees piled up in the reserved tree's
    // global entry (counter sync path of get_local) racing drain / frees / other gets
    {
        for (n, cfg) in [
            ("2tree-simple1", Config::new(2 * TREE_FRAMES, s1.clone(), InitMode::FreeAll)),
            ("3tree-simple2", Config::new(3 * TREE_FRAMES, s2.clone(), InitMode::FreeAll)),
        ] {
            // the whole tree through slot 0 of class 0: local counter 0
            let setup0 = vec![Op::Get {
                order: TREE_ORDER,
                class: 0,
                local: Some(0),
                target: None,
            }];
            let r = probe(&cfg, &setup0);
            let Some(t) = got(&r[0]) else { continue };
            let mut setup = setup0.clone();
            // free one part without naming the slot: lands in the global entry
            let (part_o, part2) = if TREE_HUGE > 1 {
                (HUGE_ORDER, t + HUGE_FRAMES)
            } else {
                (7, t + 128)
            };
            setup.push(Op::Put {
                frame: t,
                order: part_o,
                class: 0,
                local: None,
            });
            let alpha = vec![
                a(Op::Get { order: 0, class: 0, local: Some(0), target: None }),
                a(Op::Get { order: 6, class: 0, local: Some(0), target: None }),
                a(Op::Drain),
                u(Op::Put { frame: part2, order: part_o, class: 0, local: None }),
                u(Op::Put { frame: part2 + (1 << part_o), order: part_o.min(7), class: 0, local: Some(0) }),
                a(Op::Get { order: 0, class: 0, local: None, target: None }),
                a(Op::Get { order: 0, class: 1, local: Some(0), target: None }),
            ];
            let alpha: Vec<AOp> = alpha
                .into_iter()
                .filter(|x| match &x.ops[0] {
                    TOp::Do(Op::Put { frame, order, .. }) => frame + (1 << order) <= t + TREE_FRAMES,
                    _ => true,
                })
                .collect();
            out.extend(pairs(&format!("F12-sync-{n}"), &cfg, &setup, &alpha));
            if level > 0 {
                out.extend(triples(&format!("F12-sync-{n}"), &cfg, &setup, &alpha[..4.min(alpha.len())]));
            }
        }
    }

    // ---- F14: two callers share one slot whose reservation is nearly exhausted (last
    // frames in other rows than the hint; the next tree has to be reserved meanwhile)
    for (n, cfg) in [
        ("2tree-simple1", Config::new(2 * TREE_FRAMES, s1.clone(), InitMode::AllocAll)),
        ("3tree-movable1", Config::new(3 * TREE_FRAMES, mv.clone(), InitMode::AllocAll)),
    ] {
        let spec = &cfg.classing;
        let c0 = spec.natural_class(0);
        let f = |frame: usize| Op::Put { frame, order: 0, class: c0, local: None };
        // a whole-allocated huge frame has to be split by the first free
        let setup = vec![
            f(3),
            f(200),
            f(TREE_FRAMES + 5),
            f(TREE_FRAMES + 300),
            Op::Get { order: 0, class: c0, local: Some(0), target: None },
        ];
        let get = || TOp::Do(Op::Get { order: 0, class: c0, local: Some(0), target: None });
        let alpha = vec![
            AOp { ops: vec![get()], unique: false },
            seq2(get(), get()),
            seq2(get(), TOp::Do(Op::Drain)),
            seq2(get(), TOp::PutOwn { nth: 0, part: None, local: Some(0) }),
            a(Op::Get { order: 0, class: c0, local: None, target: None }),
            a(Op::Drain),
        ];
        out.extend(pairs(&format!("F14-shared-slot-{n}"), &cfg, &setup, &alpha));
        if level > 0 {
            out.extend(triples(&format!("F14-shared-slot-{n}"), &cfg, &setup, &alpha[..3]));
        }
    }

    // ---- F15: out-of-memory fallbacks (steal / demote of local reservations): every tree
    // but one is used up, the remaining free frames sit in a reservation of a *higher* class,
    // so a lower-class request reaches `steal_local` / `demote_local`; racing with drain,
    // the owner's allocation and frees
    for (n, cfg) in [
        ("3tree-simple1", Config::new(3 * TREE_FRAMES, s1.clone(), InitMode::FreeAll)),
        ("3tree-movable1", Config::new(3 * TREE_FRAMES, mv.clone(), InitMode::FreeAll)),
        ("2tree-simple1", Config::new(2 * TREE_FRAMES, s1.clone(), InitMode::FreeAll)),
    ] {
        let spec = &cfg.classing;
        let lo = spec.classes[0].0;
        let hi = spec.classes[spec.classes.len() - 1].0;
        let trees = cfg.trees();
        // the low class fills all trees but one through its slot (its slot keeps an
        // exhausted reservation), the high class reserves the last tree with a huge frame
        let mut setup = vec![];
        for _ in 0..trees - 1 {
            setup.push(Op::Get { order: TREE_ORDER, class: lo, local: Some(0), target: None });
        }
        setup.push(Op::Get { order: HUGE_ORDER, class: hi, local: Some(0), target: None });
        if probe(&cfg, &setup).iter().any(|r| got(r).is_none()) {
            continue;
        }
        let get_lo = |order: usize, local: Option<usize>| TOp::Do(Op::Get { order, class: lo, local, target: None });
        let get_hi = |order: usize| TOp::Do(Op::Get { order, class: hi, local: Some(0), target: None });
        let alpha = vec![
            AOp { ops: vec![get_lo(0, Some(0))], unique: false },
            AOp { ops: vec![get_lo(0, None)], unique: false },
            AOp { ops: vec![get_lo(HUGE_ORDER, Some(0))], unique: false },
            a(Op::Drain),
            AOp { ops: vec![get_hi(0)], unique: false },
            AOp { ops: vec![get_hi(HUGE_ORDER)], unique: false },
            seq2(get_lo(0, Some(0)), TOp::PutOwn { nth: 0, part: None, local: Some(0) }),
            seq2(get_lo(0, Some(0)), TOp::Do(Op::Drain)),
        ];
        out.extend(pairs(&format!("F15-oom-fallback-{n}"), &cfg, &setup, &alpha));
        if level > 0 {
            out.extend(triples(&format!("F15-oom-fallback-{n}"), &cfg, &setup, &alpha[..5]));
        }
    }

    // ---- F16: partial frees of a whole-allocated huge frame racing an allocation whose
    // row hint points to a *late* row of the bitfields (the slot's cursor sits in row 6 of a
    // neighbouring huge frame that is used up, so the search enters the split huge frame at
    // row 6 - rows the splitting thread has not filled yet)
    {
        // single class: the allocate-all trees carry the requesting class, so the slot really
        // reserves the tree (a tree of another class would only be stolen from)
        let single = ClassingSpec::custom("single[(0,1)]", &[(0, 1)], 0, crate::common::PolicyKind::Simple);
        // two trees: with as many slots as trees the allocator does not use reservations
        let cfg = Config::new(2 * TREE_FRAMES, single.clone(), InitMode::AllocAll);
        let c0 = 0u8;
        if TREE_HUGE >= 3 {
            let cursor_frame = HUGE_FRAMES + 6 * 64 + 3;
            // (a fresh reservation starts at the tree's first row: the second allocation
            // through the slot moves the cursor to the row it allocated from)
            let setup = vec![
                Op::Put { frame: cursor_frame, order: 0, class: c0, local: None },
                Op::Put { frame: cursor_frame + 1, order: 0, class: c0, local: None },
                Op::Get { order: 0, class: c0, local: Some(0), target: None },
                Op::Get { order: 0, class: c0, local: Some(0), target: None },
            ];
            let ok = probe(&cfg, &setup);
            if ok[0] == Res::Done && ok[1] == Res::Done && got(&ok[2]).is_some() && got(&ok[3]).is_some() {
                let h = 2 * HUGE_FRAMES;
                let put = |frame: usize, order: usize| Op::Put { frame, order, class: c0, local: None };
                let alpha = vec![
                    u(put(h, 0)),
                    u(put(h + 64, 6)),
                    u(put(h + 5 * 64, 6)),
                    a(Op::Get { order: 0, class: c0, local: Some(0), target: None }),
                    a(Op::Get { order: 0, class: c0, local: None, target: None }),
                ];
                out.extend(pairs("F16-split-late-hint", &cfg, &setup, &alpha));
                out.extend(triples("F16-split-late-hint", &cfg, &setup, &alpha));
            }
        }
    }

    // ---- F10: two operations per thread (allocate, then free own block)
    {
        let cfg = Config::new(TREE_FRAMES, s1.clone(), InitMode::FreeAll);
        let cfg2 = Config::new(2 * TREE_FRAMES, s1.clone(), InitMode::FreeAll);
        for (n, c) in [("1tree", &cfg), ("2tree", &cfg2)] {
            let mut alpha = vec![];
            let orders: &[usize] = if level > 0 { &[0, 6, 7, HUGE_ORDER] } else { &[0, 7, HUGE_ORDER] };
            for &o in orders {
                alpha.push(seq2(
                    TOp::Do(g(&s1, o, Some(0))),
                    TOp::PutOwn {
                        nth: 0,
                        part: None,
                        local: Some(0),
                    },
                ));
            }
            alpha.push(seq2(
                TOp::Do(g(&s1, HUGE_ORDER, Some(0))),
                TOp::PutOwn {
                    nth: 0,
                    part: Some((1, 6)),
                    local: None,
                },
            ));
            alpha.push(seq2(TOp::Do(g(&s1, 0, Some(0))), TOp::Do(g(&s1, 0, Some(0)))));
            out.extend(pairs(&format!("F10-2x2-{n}"), c, &[], &alpha));
        }
    }

    // ---- F13: set-ups from the sequential search frontier
    {
        let fd = if level > 0 { 2 } else { 1 };
        let cap = if level > 0 { 150 } else { 60 };
        for (n, cfg) in [
            ("1tree-free", Config::new(TREE_FRAMES, s1.clone(), InitMode::FreeAll)),
            ("2tree-free", Config::new(2 * TREE_FRAMES, s1.clone(), InitMode::FreeAll)),
            ("2tree-alloc", Config::new(2 * TREE_FRAMES, s1.clone(), InitMode::AllocAll)),
            ("3tree-free-simple2", Config::new(3 * TREE_FRAMES, s2.clone(), InitMode::FreeAll)),
        ] {
            out.extend(frontier(&format!("F13-frontier-{n}"), &cfg, fd, cap));
        }
    }

    // ---- F11: triples on a fresh allocator
    {
        let cfg = Config::new(TREE_FRAMES, s1.clone(), InitMode::FreeAll);
        let alpha = vec![
            a(g(&s1, 0, Some(0))),
            a(g(&s1, 7, Some(0))),
            a(g(&s1, HUGE_ORDER, Some(0))),
            a(g(&s1, 0, None)),
        ];
        out.extend(triples("F11-fresh", &cfg, &[], &alpha));
        if level > 0 {
            let cfg = Config::new(2 * TREE_FRAMES, s1.clone(), InitMode::FreeAll);
            out.extend(triples("F11-fresh-2tree", &cfg, &[], &alpha));
        }
    }
    // development aid: restrict the run to scenarios whose name contains VERIF_SCENARIO
    if let Ok(f) = std::env::var("VERIF_SCENARIO") {
        out.retain(|sc| sc.name.contains(&f));
        eprintln!("VERIF_SCENARIO={f}: {} scenario(s)", out.len());
    }
    out
}
