//! Probe transitions evaluated on scratch copies of reached states (C07, C10).

use std::cell::RefCell;

use llfree::{Alloc, FrameId, HUGE_ORDER, Init, TREE_FRAMES, TREE_ORDER, TreeId};

use crate::common::{Config, ErrKind, Op, Res, Sut};
use crate::model::{Model, alphabet};
use crate::oracle::Violation;
use crate::seq::{SeqParams, SeqStats, State};

thread_local! {
    static TWIN: RefCell<Option<Sut>> = const { RefCell::new(None) };
}

fn with_twin<R>(cfg: &Config, f: impl FnOnce(&mut Sut) -> R) -> R {
    TWIN.with(|t| {
        let mut t = t.borrow_mut();
        if t.as_ref().is_none_or(|s| s.cfg != *cfg) {
            *t = Some(Sut::new(cfg));
        }
        f(t.as_mut().unwrap())
    })
}

pub fn on_state(
    st: &State,
    cfg: &Config,
    sut: &Sut,
    p: &SeqParams,
    stats: &mut SeqStats,
    viol: &mut Vec<Violation>,
) {
    let mut v = vec![];
    if let Err(msg) = crate::common::catch(|| on_state_raw(st, cfg, sut, p, stats, &mut v)) {
        crate::oracle::query_panic(&msg, "probe", &mut v);
        sut.bufs.restore(&st.bytes);
    }
    viol.extend(v);
}

fn on_state_raw(
    st: &State,
    cfg: &Config,
    sut: &Sut,
    p: &SeqParams,
    stats: &mut SeqStats,
    viol: &mut Vec<Violation>,
) {
    if p.probes.blocks {
        crate::oracle::state_blocks(&st.model, sut, viol);
        *stats.probe_evals.entry("is_free_blocks".into()).or_default() += 1;
    }
    if p.probes.c07 {
        let n = c07_probe(st, cfg, sut, p, viol);
        *stats.probe_evals.entry("c07_continuations".into()).or_default() += n;
        *stats.probe_evals.entry("c07_handoffs".into()).or_default() += 1;
    }
    if p.probes.c10 && cfg.classing.never_invalid() && !st.model.unjudged_accounting {
        let n = c10_probe(&st.model, cfg, sut, &st.bytes, viol);
        *stats.probe_evals.entry("c10_probes".into()).or_default() += n;
    }
    if p.probes.c15_fill
        && !st.model.unjudged_accounting
        && (st.model.any_offline() || st.path.iter().any(|o| matches!(o, Op::Change { .. })))
    {
        c15_fill(&st.model, cfg, sut, &st.bytes, viol);
        *stats.probe_evals.entry("c15_exhaustions".into()).or_default() += 1;
    }
    // leave the subject in the state it was given
    sut.bufs.restore(&st.bytes);
}

fn observable(s: &Sut) -> String {
    let a = &s.alloc;
    let ts = a.tree_stats();
    let st = a.stats();
    let trees: Vec<_> = (0..s.trees())
        .map(|t| {
            let (c, f, r) = a.trees.stats_at(TreeId(t));
            (c.0, f, r)
        })
        .collect();
    format!(
        "frames={} stats=({},{},{}) tree_stats=({},{},{:?}) trees={:?}",
        a.frames(),
        st.free_frames,
        st.free_huge,
        st.free_trees,
        ts.free_frames,
        ts.free_trees,
        ts.classes
            .iter()
            .map(|c| (c.free_frames, c.alloc_frames))
            .collect::<Vec<_>>(),
        trees
    )
}

/// C07: rebuild in assume-initialised mode over byte copies and compare
pub fn c07_probe(
    st: &State,
    cfg: &Config,
    sut: &Sut,
    p: &SeqParams,
    viol: &mut Vec<Violation>,
) -> u64 {
    let mut n = 0;
    with_twin(cfg, |twin| {
        twin.bufs.restore(&st.bytes);
        if let Err(r) = twin.reinit(Init::None) {
            viol.push(Violation::new(
                "C07",
                "assume-initialised construction failed",
                r.short(),
            ));
            return;
        }
        if twin.bufs.snapshot() != st.bytes {
            viol.push(Violation::new(
                "C07",
                "assume-initialised construction modified the metadata",
                "bytes differ after LLFree::new(Init::None)",
            ));
            return;
        }
        // `metadata()` hands back exactly the three buffers the instance was built over
        let md = unsafe { twin.alloc.metadata() };
        let same = md.local.as_ptr() == twin.bufs.local.ptr as *const u8
            && md.trees.as_ptr() == twin.bufs.trees.ptr as *const u8
            && md.lower.as_ptr() == twin.bufs.lower.ptr as *const u8
            && md.local.len() == twin.bufs.local.len
            && md.trees.len() == twin.bufs.trees.len
            && md.lower.len() == twin.bufs.lower.len;
        if !same {
            viol.push(Violation::new(
                "C07",
                "metadata() does not return the buffers the allocator was built over",
                format!(
                    "local {:?}/{} trees {:?}/{} lower {:?}/{}",
                    md.local.as_ptr(), md.local.len(), md.trees.as_ptr(), md.trees.len(),
                    md.lower.as_ptr(), md.lower.len()
                ),
            ));
            return;
        }
        sut.bufs.restore(&st.bytes);
        let (oa, ob) = (observable(sut), observable(twin));
        if oa != ob {
            viol.push(Violation::new(
                "C07",
                "statistics differ after handoff",
                format!("original {oa} rebuilt {ob}"),
            ));
            return;
        }
        // continuations
        let ops = alphabet(&st.model, cfg, &p.profile);
        let mut a1 = Vec::new();
        let mut b1 = Vec::new();
        for op in &ops {
            sut.bufs.restore(&st.bytes);
            twin.bufs.restore(&st.bytes);
            let ra = sut.apply(op);
            let rb = twin.apply(op);
            n += 1;
            if ra.is_panic() {
                continue; // attributed to C09 by the host run
            }
            sut.bufs.snapshot_into(&mut a1);
            twin.bufs.snapshot_into(&mut b1);
            // observable state: the trees and lower buffers (tree entries, counters, frame
            // status); the local buffer holds search hints that only show through results
            let skip = sut.bufs.local.len;
            let obs_equal = a1[skip..] == b1[skip..];
            if ra != rb || !obs_equal {
                viol.push(Violation::new(
                    "C07",
                    "continuation differs after handoff",
                    format!(
                        "{}: original {} rebuilt {} observable_state_equal={}",
                        op.short(),
                        ra.short(),
                        rb.short(),
                        obs_equal
                    ),
                ));
                return;
            }
            // continue both from their own (possibly hint-different) states
            if p.probes.c07_depth2 {
                // second step from the (equal) post state: a fixed small menu
                let menu = [
                    Op::Get {
                        order: 0,
                        class: cfg.classing.natural_class(0),
                        local: cfg.classing.slots(cfg.classing.natural_class(0)).filter(|&s| s > 0).map(|_| 0),
                        target: None,
                    },
                    Op::Get {
                        order: HUGE_ORDER,
                        class: cfg.classing.natural_class(HUGE_ORDER),
                        local: None,
                        target: None,
                    },
                    Op::Drain,
                ];
                let base_a = a1.clone();
                let base_b = b1.clone();
                for op2 in &menu {
                    sut.bufs.restore(&base_a);
                    twin.bufs.restore(&base_b);
                    let ra = sut.apply(op2);
                    let rb = twin.apply(op2);
                    n += 1;
                    sut.bufs.snapshot_into(&mut a1);
                    twin.bufs.snapshot_into(&mut b1);
                    if !ra.is_panic() && (ra != rb || a1[skip..] != b1[skip..]) {
                        viol.push(Violation::new(
                            "C07",
                            "second continuation differs after handoff",
                            format!(
                                "{}; {}: original {} rebuilt {}",
                                op.short(),
                                op2.short(),
                                ra.short(),
                                rb.short()
                            ),
                        ));
                        return;
                    }
                }
            }
        }
    });
    n
}

/// Candidate blocks for targeted probes: per tree and order the first two and the last
/// of each status category (entirely free / entirely allocated / mixed)
fn candidates(m: &Model, order: usize) -> Vec<usize> {
    let len = 1usize << order;
    let mut out = vec![];
    for t in 0..m.trees() {
        let r = m.tree_range(t);
        let mut cats: [Vec<usize>; 3] = [vec![], vec![], vec![]];
        let mut f = r.start;
        while f + len <= r.end {
            let free = m.free_in(f..f + len);
            let c = if free == len {
                0
            } else if free == 0 {
                1
            } else {
                2
            };
            cats[c].push(f);
            f += len;
        }
        for c in cats {
            if c.len() <= 3 {
                out.extend(c);
            } else {
                out.push(c[0]);
                out.push(c[1]);
                out.push(*c.last().unwrap());
            }
        }
    }
    out
}

/// C10: after a drain, allocation fails only when nothing suitable is free
pub fn c10_probe(
    m: &Model,
    cfg: &Config,
    sut: &Sut,
    bytes: &[u8],
    viol: &mut Vec<Violation>,
) -> u64 {
    let mut n = 0;
    sut.bufs.restore(bytes);
    let r = sut.apply(&Op::Drain);
    if r.is_panic() {
        return 0; // C09
    }
    let drained = sut.bufs.snapshot();
    let free_online = m.free_online();
    // (i) base-order allocations for every class and slot
    for &(class, slots) in &cfg.classing.classes {
        let mut locals: Vec<Option<usize>> = (0..slots).map(Some).collect();
        locals.push(None);
        for local in locals {
            sut.bufs.restore(&drained);
            let op = Op::Get {
                order: 0,
                class,
                local,
                target: None,
            };
            let r = sut.apply(&op);
            n += 1;
            match r {
                Res::Got(f, _) => {
                    if f >= m.frames
                        || m.cells[f] != crate::model::FREE
                        || m.offline[f / TREE_FRAMES]
                    {
                        viol.push(Violation::new(
                            "C10",
                            "allocation after drain returned a frame that is not free and online",
                            format!("{} -> {f}", op.short()),
                        ));
                        return n;
                    }
                }
                Res::Err(ErrKind::Memory) => {
                    if free_online > 0 {
                        viol.push(Violation::new(
                            "C10",
                            "base allocation after drain failed although a frame is free",
                            format!(
                                "{} -> Err(Memory) with {free_online} free frames outside offline trees",
                                op.short()
                            ),
                        ));
                        return n;
                    }
                }
                Res::Panic(_) => {}
                r => {
                    viol.push(Violation::new(
                        "C10",
                        "base allocation after drain returned an unexpected error",
                        format!("{} -> {}", op.short(), r.short()),
                    ));
                    return n;
                }
            }
        }
    }
    // (ii) targeted allocations
    let mut orders = vec![0usize, 3, 6, 7, HUGE_ORDER, HUGE_ORDER + 1, TREE_ORDER];
    orders.retain(|&o| o <= TREE_ORDER);
    orders.dedup();
    let mut flip = 0usize;
    for order in orders {
        for b in candidates(m, order) {
            let class = cfg.classing.natural_class(order);
            let slots = cfg.classing.slots(class).unwrap_or(0);
            flip += 1;
            let local = if slots > 0 && flip % 2 == 0 {
                Some(flip / 2 % slots)
            } else {
                None
            };
            let op = Op::Get {
                order,
                class,
                local,
                target: Some(b),
            };
            sut.bufs.restore(&drained);
            let r = sut.apply(&op);
            n += 1;
            let want = m.block_free(b, order) && !m.offline[b / TREE_FRAMES];
            match (&r, want) {
                (Res::Got(f, _), true) if *f == b => {}
                (Res::Err(ErrKind::Memory), false) => {}
                (Res::Panic(_), _) => {}
                _ => {
                    viol.push(Violation::new(
                        "C10",
                        if want {
                            "targeted allocation of a free block failed after drain"
                        } else {
                            "targeted allocation of a block that is not free/online succeeded"
                        },
                        format!("{} -> {} (model free+online: {want})", op.short(), r.short()),
                    ));
                    return n;
                }
            }
        }
    }
    let _ = FrameId(0);
    n
}

/// C15: drain, then allocate base frames until out of memory: exactly the free frames
/// outside offline trees are handed out.
pub fn c15_fill(m: &Model, cfg: &Config, sut: &Sut, bytes: &[u8], viol: &mut Vec<Violation>) {
    sut.bufs.restore(bytes);
    if sut.apply(&Op::Drain).is_panic() {
        return;
    }
    let class = cfg.classing.natural_class(0);
    let local = cfg.classing.slots(class).filter(|&s| s > 0).map(|_| 0);
    let op = Op::Get {
        order: 0,
        class,
        local,
        target: None,
    };
    let want = m.free_online();
    let mut got = 0usize;
    let mut seen = vec![false; m.frames];
    loop {
        match sut.apply(&op) {
            Res::Got(f, _) => {
                if f >= m.frames || m.cells[f] != crate::model::FREE || seen[f] {
                    viol.push(Violation::new(
                        "C15",
                        "exhaustion returned a frame that is not free",
                        format!("{} -> {f}", op.short()),
                    ));
                    return;
                }
                if m.offline[f / TREE_FRAMES] {
                    viol.push(Violation::new(
                        "C15",
                        "allocation from an offline tree",
                        format!("{} -> {f} in offline tree {} during exhaustion", op.short(), f / TREE_FRAMES),
                    ));
                    return;
                }
                seen[f] = true;
                got += 1;
                if got > m.frames {
                    return;
                }
            }
            Res::Err(ErrKind::Memory) => break,
            _ => return,
        }
    }
    if got != want && cfg.classing.never_invalid() {
        viol.push(Violation::new(
            "C15",
            "exhaustion did not hand out exactly the free frames of online trees",
            format!("allocated {got}, online free frames {want}"),
        ));
    }
}
