//! SIGSEGV attribution for the guard pages around the metadata buffers (C18)

use std::cell::Cell;
use std::sync::atomic::{AtomicUsize, Ordering};

const MAX_RANGES: usize = 8192;
static STARTS: [AtomicUsize; MAX_RANGES] = [const { AtomicUsize::new(0) }; MAX_RANGES];
static ENDS: [AtomicUsize; MAX_RANGES] = [const { AtomicUsize::new(0) }; MAX_RANGES];
static NEXT: AtomicUsize = AtomicUsize::new(0);
static WORKERS: AtomicUsize = AtomicUsize::new(0);

thread_local! {
    static WORKER_ID: Cell<usize> = const { Cell::new(usize::MAX) };
}

pub fn worker_id() -> usize {
    WORKER_ID.with(|w| {
        if w.get() == usize::MAX {
            w.set(WORKERS.fetch_add(1, Ordering::SeqCst));
        }
        w.get()
    })
}

/// Register a guard range; returns its slot
pub fn register(start: usize, end: usize) -> usize {
    // reuse a free slot if the table wrapped
    let n = NEXT.fetch_add(1, Ordering::SeqCst);
    let mut i = n % MAX_RANGES;
    for _ in 0..MAX_RANGES {
        if ENDS[i]
            .compare_exchange(0, end, Ordering::SeqCst, Ordering::SeqCst)
            .is_ok()
        {
            STARTS[i].store(start, Ordering::SeqCst);
            return i;
        }
        i = (i + 1) % MAX_RANGES;
    }
    usize::MAX
}
pub fn unregister(slot: usize) {
    if slot < MAX_RANGES {
        STARTS[slot].store(0, Ordering::SeqCst);
        ENDS[slot].store(0, Ordering::SeqCst);
    }
}

fn write_all(s: &[u8]) {
    unsafe { libc::write(1, s.as_ptr().cast(), s.len()) };
}
#[allow(dead_code)]
fn write_num(mut n: usize) {
    let mut buf = [0u8; 24];
    let mut i = buf.len();
    if n == 0 {
        i -= 1;
        buf[i] = b'0';
    }
    while n > 0 {
        i -= 1;
        buf[i] = b'0' + (n % 10) as u8;
        n /= 10;
    }
    write_all(&buf[i..]);
}

static REPORTED: std::sync::atomic::AtomicBool = std::sync::atomic::AtomicBool::new(false);

extern "C" fn on_fault(_sig: libc::c_int, info: *mut libc::siginfo_t, _ctx: *mut libc::c_void) {
    let addr = unsafe { (*info).si_addr() } as usize;
    let mut guard = false;
    for i in 0..MAX_RANGES {
        let e = ENDS[i].load(Ordering::Relaxed);
        if e != 0 {
            let s = STARTS[i].load(Ordering::Relaxed);
            if addr >= s && addr < e {
                guard = true;
                break;
            }
        }
    }
    if guard {
        // an access outside a metadata buffer: a verdict
        let id = WORKER_ID.try_with(|w| w.get()).unwrap_or(usize::MAX);
        // several workers may fault at once: only the first one reports, in one write
        if REPORTED.swap(true, Ordering::SeqCst) {
            loop {
                unsafe { libc::pause() };
            }
        }
        let mut line = [0u8; 96];
        let mut n = 0;
        for &b in b"\nVIOLATION property=C18 replay=/verif/replays/C18/inflight-" {
            line[n] = b;
            n += 1;
        }
        let id = if id == usize::MAX { 0 } else { id };
        let mut digits = [0u8; 20];
        let mut d = 0;
        let mut v = id;
        loop {
            digits[d] = b'0' + (v % 10) as u8;
            d += 1;
            v /= 10;
            if v == 0 {
                break;
            }
        }
        while d > 0 {
            d -= 1;
            line[n] = digits[d];
            n += 1;
        }
        for &b in b".json\n" {
            line[n] = b;
            n += 1;
        }
        write_all(&line[..n]);
        unsafe { libc::_exit(1) };
    } else {
        write_all(b"\nMACHINERY ERROR: SIGSEGV outside the guard pages\n");
        unsafe { libc::_exit(2) };
    }
}

pub fn install_handler() {
    unsafe {
        let mut sa: libc::sigaction = std::mem::zeroed();
        sa.sa_sigaction = on_fault as *const () as usize;
        sa.sa_flags = libc::SA_SIGINFO;
        libc::sigemptyset(&mut sa.sa_mask);
        libc::sigaction(libc::SIGSEGV, &sa, std::ptr::null_mut());
        libc::sigaction(libc::SIGBUS, &sa, std::ptr::null_mut());
    }
}

/// Record what this worker is about to run (replay artefact for a guard fault)
pub fn set_inflight(item: &serde_json::Value) {
    let dir = crate::report::verif_root().join("replays").join("C18");
    let _ = std::fs::create_dir_all(&dir);
    let path = dir.join(format!("inflight-{}.json", worker_id()));
    let mut v = item.clone();
    if let Some(m) = v.as_object_mut() {
        m.insert("property".into(), serde_json::json!("C18"));
        m.insert(
            "geometry_features".into(),
            serde_json::json!(crate::common::geometry_features()),
        );
    }
    let _ = std::fs::write(path, serde_json::to_string_pretty(&v).unwrap());
}
pub fn clear_inflight() {
    let dir = crate::report::verif_root().join("replays").join("C18");
    let _ = std::fs::remove_file(dir.join(format!("inflight-{}.json", worker_id())));
}
