#!/bin/bash
# Re-run every kept seeded / planted change against the check of its property.
# usage: tools/regress_seeds.sh [logfile]      (edits /repo temporarily: run nothing else on /repo meanwhile)
# Entries already present in the log file are skipped, so an interrupted run can be resumed.
cd /verif
LOG=${1:-/tmp/regress_seeds.log}
touch $LOG
for d in seeded/*/; do
  id=$(basename $d); prop=${id:0:3}
  grep -q "^seeded/$id " $LOG && continue
  r=$(timeout 1800 tools/try_patch.sh $d/patch.diff $prop 2>&1 | grep "^== ")
  echo "seeded/$id $r" | tee -a $LOG
done
for f in planted/*.diff; do
  n=$(basename $f .diff); prop=$(echo ${n:0:3} | tr a-z A-Z)
  grep -q "^planted/$n " $LOG && continue
  r=$(timeout 1800 tools/try_patch.sh $f $prop 2>&1 | grep "^== ")
  echo "planted/$n $r" | tee -a $LOG
done
