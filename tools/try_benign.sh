#!/bin/bash
# usage: tools/try_benign.sh <patch.diff> [<Cxx>...]
# Applies a property-preserving change to /repo and runs the quick check of EVERY claimed
# property (or the listed ones); any exit != 0 is a false alarm of the machinery.
set -u
P=$(realpath "$1"); shift
PROPS=${*:-C01 C02 C03 C04 C05 C06 C07 C08 C09 C10 C11 C12 C13 C14 C15 C16 C17 C18 C19 C20 C21 C23}
cd /repo || exit 2
if ! git diff --quiet; then echo "/repo working tree is dirty"; exit 2; fi
git apply "$P" || { echo "patch does not apply"; exit 2; }
trap 'git -C /repo checkout -- . ' EXIT
for c in $PROPS; do
  out=$(cd /verif && ./run "$c" quick 2>&1); code=$?
  echo "== $c exit=$code $(echo "$out" | grep -c '^VIOLATION') violation line(s)"
  echo "$out" | grep -E "^VIOLATION|clause:|detail:|MACHINERY" | head -6 | cut -c1-300
done
