#!/bin/bash
# usage: tools/try_patch.sh <patch.diff> <Cxx> [<Cxx>...]
# applies the patch to /repo, runs the quick checks, reverts. Prints exit codes.
set -u
P=$(realpath "$1"); shift
cd /repo || exit 2
if ! git diff --quiet; then echo "/repo working tree is dirty"; exit 2; fi
git apply "$P" || { echo "patch does not apply"; exit 2; }
trap 'git -C /repo checkout -- . ' EXIT
for c in "$@"; do
  out=$(cd /verif && ./run "$c" quick 2>&1); code=$?
  echo "== $c exit=$code $(echo "$out" | grep -c '^VIOLATION') violation line(s)"
  echo "$out" | grep -E "^VIOLATION|clause:|MACHINERY" | head -6 | cut -c1-220
done
