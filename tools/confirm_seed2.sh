#!/bin/bash
# usage: tools/confirm_seed2.sh <id> '<demo command run inside the worktree>'
# Like confirm_seed.sh but for arbitrary demo commands (cargo run --example ...).
ID=$1; CMD=$2
WT=/tmp/seed/$ID
cd $WT || exit 2
export CARGO_TARGET_DIR=$WT/target CARGO_NET_OFFLINE=true RUST_BACKTRACE=0
git apply -R --check SEED/patch.diff || { echo "change is not applied in the worktree"; exit 2; }
DEMOS=$(git status --porcelain | grep '^??' | awk '{print $2}' | grep -v '^SEED' | grep -v '^target' | grep -v Cargo.lock | grep -v foreign)
mkdir -p /tmp/seed/aside_$ID
for f in $DEMOS; do mkdir -p /tmp/seed/aside_$ID/$(dirname $f); mv $f /tmp/seed/aside_$ID/$f; done
echo "--- suite with change (demo moved aside): $(git diff --stat | tail -1)"
cargo test --workspace --no-fail-fast --offline 2>&1 | grep -E "^test result|FAILED|panicked" | sort | uniq -c
for f in $DEMOS; do mv /tmp/seed/aside_$ID/$f $f; done
echo "--- demo WITH change"
bash -c "$CMD" > /tmp/seed/aside_$ID/with.log 2>&1; echo "exit=$?"; grep -E "^test result|^test .*(FAILED|ok)$|PASS|FAIL|VIOLATED" /tmp/seed/aside_$ID/with.log | head -8
git apply -R SEED/patch.diff
echo "--- demo WITHOUT change"
bash -c "$CMD" > /tmp/seed/aside_$ID/without.log 2>&1; echo "exit=$?"; grep -E "^test result|^test .*(FAILED|ok)$|PASS|FAIL|VIOLATED" /tmp/seed/aside_$ID/without.log | head -8
git apply SEED/patch.diff
