#!/bin/bash
# usage: tools/confirm_seed.sh <id> <demo cargo args...>   e.g. C02 -p llfree-eval --test seed_c02
# Confirms in the scratch worktree /tmp/seed/<id>: suite passes with the change, demo fails
# with it and passes without it.
ID=$1; shift
WT=/tmp/seed/$ID
cd $WT || exit 2
export CARGO_TARGET_DIR=$WT/target CARGO_NET_OFFLINE=true
git apply -R --check SEED/patch.diff || { echo "change is not applied in the worktree"; exit 2; }
# demo files = untracked files outside SEED/target
DEMOS=$(git status --porcelain | grep '^??' | awk '{print $2}' | grep -v '^SEED' | grep -v '^target' | grep -v Cargo.lock | grep -v foreign)
mkdir -p /tmp/seed/aside_$ID
for f in $DEMOS; do mkdir -p /tmp/seed/aside_$ID/$(dirname $f); mv $f /tmp/seed/aside_$ID/$f; done
echo "--- suite with change (demo moved aside): $(git diff --stat | tail -1)"
cargo test --workspace --no-fail-fast --offline 2>&1 | grep -E "^test result|FAILED|panicked" | sort | uniq -c
for f in $DEMOS; do mv /tmp/seed/aside_$ID/$f $f; done
echo "--- demo WITH change"
cargo test --offline "$@" 2>&1 | grep -E "^test result|^test .*(FAILED|ok)$" | head -12
git apply -R SEED/patch.diff
echo "--- demo WITHOUT change"
cargo test --offline "$@" 2>&1 | grep -E "^test result|^test .*(FAILED|ok)$" | head -12
git apply SEED/patch.diff
